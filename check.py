#!/venv/bin/python
"""check.py <ID> [--tier quick|thorough] [--seed N] [--replay FILE]

Exit 0: property held on everything explored (known findings are printed as
KNOWN-FINDING lines).  Exit 1: `VIOLATION property=<ID> replay=<path>`.
Exit 2: harness error / inconclusive; never printed as a violation.
"""
from __future__ import annotations

import argparse
import glob
import importlib
import json
import os
import sys
import threading
import time
import traceback

HERE = os.path.dirname(os.path.abspath(__file__))


def _reexec():
    want = {"PYTHONHASHSEED": "0", "PYTHONDONTWRITEBYTECODE": "1"}
    if any(os.environ.get(k) != v for k, v in want.items()):
        env = dict(os.environ)
        env.update(want)
        deps = os.path.join(HERE, ".deps")
        env["PYTHONPATH"] = os.pathsep.join(p for p in (HERE, deps, env.get("PYTHONPATH", "")) if p)
        os.execve(sys.executable, [sys.executable, os.path.abspath(__file__)] + sys.argv[1:], env)


def main():
    ap = argparse.ArgumentParser()
    ap.add_argument("pid")
    ap.add_argument("--tier", default=os.environ.get("VERIF_TIER") or "quick", choices=["quick", "thorough"])
    ap.add_argument("--seed", type=int, default=None)
    ap.add_argument("--replay", default=None)
    ap.add_argument("--budget", type=float, default=None, help="wall-clock cap in seconds (inconclusive when hit)")
    a = ap.parse_args()
    _reexec()
    os.chdir(HERE)
    if HERE not in sys.path:
        sys.path.insert(0, HERE)
    pid = a.pid.upper()
    seed = a.seed
    if seed is None:
        try:
            seed = int(os.environ.get("VERIF_SEED", "1"))
        except ValueError:
            seed = 1

    try:
        from vx import campaign, harness  # noqa: F401  (imports the code under test)
        mod = importlib.import_module(f"vx.props.{pid.lower()}")
    except BaseException:
        traceback.print_exc()
        print(f"HARNESS-ERROR property={pid} import failed")
        return 2

    if a.replay:
        with open(a.replay, encoding="utf-8") as f:
            data = json.load(f)
        case = data["case"] if isinstance(data, dict) and "case" in data else data
        try:
            r = mod.replay(case)
        except BaseException:
            traceback.print_exc()
            print(f"HARNESS-ERROR property={pid} replay raised")
            return 2
        if r:
            print(f"replay: {r[0]} :: {r[1]}")
            print(f"VIOLATION property={pid} replay={a.replay}")
            return 1
        print(f"replay: property {pid} holds on {a.replay}")
        return 0

    limit = a.budget or (1500 if a.tier == "quick" else 6 * 3600)

    def _timeout():
        import multiprocessing as mp

        print(f"INCONCLUSIVE property={pid} wall-clock cap {limit}s reached (not a violation)", flush=True)
        for ch in mp.active_children():
            try:
                ch.terminate()
            except Exception:
                pass
        os._exit(2)

    timer = threading.Timer(limit, _timeout)
    timer.daemon = True
    timer.start()

    t0 = time.time()
    rec = campaign.Rec()
    try:
        # regression tier: committed replay files must hold on the current tree
        reg_files = sorted(glob.glob(os.path.join(HERE, "regress", pid, "*.json")))
        for path in reg_files:
            with open(path, encoding="utf-8") as f:
                data = json.load(f)
            r = mod.replay(data["case"])
            rec.classes["regress-replayed"] += 1
            if r:
                rec.fail(r[0], data["case"], r[1] + f" [regress file {os.path.basename(path)}]")
        mod.run(rec, a.tier, seed)
    except campaign.HarnessError as e:
        print(e)
        print(f"HARNESS-ERROR property={pid}")
        return 2
    except BaseException:
        traceback.print_exc()
        print(f"HARNESS-ERROR property={pid}")
        return 2

    known, fixed = campaign.load_known(pid)
    violations = []
    known_hits = []
    for sig in sorted(rec.failures):
        f = rec.failures[sig]
        if sig in known:
            known_hits.append(sig)
            print(f"KNOWN-FINDING: property={pid} sig={sig} {known[sig]} (seen {f['count']}x)")
            continue
        case = f["case"]
        calls = 0
        try:
            def still(c, _sig=sig):
                r = mod.replay(c)
                return bool(r) and r[0] == _sig

            if len(violations) >= 12:
                msg = f["msg"] + " [not shrunk: more than 12 new signatures in this run]"
            elif still(case):
                case, calls = campaign.shrink(case, still, budget=300 if a.tier == "quick" else 3000)
                r = mod.replay(case)
                msg = r[1] if r else f["msg"]
            else:
                msg = f["msg"] + " [note: replay() did not reproduce the signature; case kept unshrunk]"
        except BaseException:
            msg = f["msg"] + " [shrink raised: %s]" % traceback.format_exc(limit=1)
        path = os.path.join("out", "replays", pid, campaign.sig_hash(sig) + ".json")
        campaign.write_json(os.path.join(HERE, path), {
            "property": pid, "sig": sig, "case": case, "msg": msg, "seed": seed,
            "tier": a.tier, "count": f["count"], "shrink_calls": calls,
        })
        violations.append((sig, path, msg))

    stale = [s for s in known if s not in known_hits]
    cov = {
        "evaluations": rec.evaluations,
        "distinct_nontrivial": rec.distinct_nontrivial,
        "rule": getattr(mod, "RULE", ""),
        "samples": rec.samples[:12],
        "classes": dict(sorted(rec.classes.items(), key=lambda kv: str(kv[0]))),
        "discards": dict(rec.discards),
        "discard_rate": round(sum(rec.discards.values()) / max(1, rec.evaluations + sum(rec.discards.values())), 4),
        "max_fuel": rec.max_fuel,
        # true only when the property's whole domain is finite and was enumerated (C20);
        # finite sub-domains that were enumerated completely are listed below
        "exhaustive": bool(getattr(mod, "WHOLE_DOMAIN_FINITE", False)) and bool(rec.exhaustive),
        "exhaustive_subdomains": rec.exhaustive,
        "known_findings_seen": known_hits,
        "known_findings_not_seen_this_run": stale,
        "failure_signatures": {s: rec.failures[s]["count"] for s in rec.failures},
        "notes": rec.notes,
    }
    ev = {
        "property_id": pid, "tier": a.tier, "seed": seed, "level": "exploration",
        "coverage": cov, "assumptions": list(getattr(mod, "ASSUMPTIONS", [])),
        "wall_s": round(time.time() - t0, 2), "violations": len(violations),
    }
    campaign.write_json(os.path.join(HERE, "evidence", f"{pid}.json"), ev)
    print(f"{pid} tier={a.tier} seed={seed} evaluations={rec.evaluations} "
          f"nontrivial={rec.distinct_nontrivial} discards={sum(rec.discards.values())} "
          f"known={len(known_hits)} violations={len(violations)} wall={ev['wall_s']}s")
    for sig, path, msg in violations:
        print(f"  {sig} :: {msg[:300]}")
        print(f"VIOLATION property={pid} replay={path}")
    timer.cancel()
    return 1 if violations else 0


if __name__ == "__main__":
    rc = main()
    sys.stdout.flush()
    os._exit(rc) if rc == 2 else sys.exit(rc)
