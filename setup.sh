#!/bin/sh
# Offline set-up: hypothesis must import under /venv; atheris goes to /verif/.deps (optional).
set -u
cd "$(dirname "$0")"
WH=/opt/veriftools/wheels
/venv/bin/python -c "import hypothesis" 2>/dev/null || /venv/bin/pip install -q --no-index --find-links "$WH" hypothesis || exit 1
if ! PYTHONPATH=.deps /venv/bin/python -c "import atheris" 2>/dev/null; then
  /venv/bin/pip install -q --no-index --find-links "$WH" --target .deps atheris >/dev/null 2>&1 || echo "setup: atheris not installable; coverage-guided tiers fall back to plain generation"
fi
/venv/bin/python -c "import hypothesis, sys; print('hypothesis', hypothesis.__version__, 'python', sys.version.split()[0])"
exit 0
