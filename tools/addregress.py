#!/usr/bin/env python3
"""addregress.py PID NAME ORIGIN JSONCASE  -> regress/PID/NAME.json"""
import json, os, sys
pid, name, origin, case = sys.argv[1:5]
d = os.path.join(os.path.dirname(os.path.dirname(os.path.abspath(__file__))), "regress", pid)
os.makedirs(d, exist_ok=True)
with open(os.path.join(d, name + ".json"), "w", encoding="utf-8") as f:
    json.dump({"property": pid, "origin": origin, "case": json.loads(case)}, f, ensure_ascii=False, indent=1)
    f.write("\n")
