#!/bin/bash
# checkseeds.sh - every kept seed must still apply at /repo's HEAD (run after a fix: commit; rebase those that do not)
W=/tmp/vx-seedcheck; git -C /repo worktree add --detach $W HEAD -f >/dev/null 2>&1
for d in /verif/seeded/*/; do git -C $W apply --check $d/patch.diff 2>/dev/null || echo "DOES NOT APPLY: $(basename $d)"; done
git -C /repo worktree remove --force $W
