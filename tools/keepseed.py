#!/usr/bin/env python3
"""keepseed.py NAME PID PATCH DEMO NEEDS DETECTED_BY  -> seeded/NAME/{patch.diff,demo.py,meta.json}"""
import json, os, shutil, sys
name, pid, patch, demo, needs, detected = sys.argv[1:7]
d = os.path.join(os.path.dirname(os.path.dirname(os.path.abspath(__file__))), "seeded", name)
os.makedirs(d, exist_ok=True)
shutil.copy(patch, os.path.join(d, "patch.diff"))
shutil.copy(demo, os.path.join(d, "demo.py"))
json.dump({
    "property": pid, "breaks": pid, "needs_to_manifest": needs,
    "confirmed": "applied to /repo working tree with git apply; repo test suite: 392 passed; demo.py exits 1 with the change and 0 without; then reverted",
    "ran": f"tools/tryseed.sh {pid} seeded/{name}/patch.diff seeded/{name}/demo.py",
    "detected_by": detected,
}, open(os.path.join(d, "meta.json"), "w"), indent=1, ensure_ascii=False)
print("kept", d)
