#!/usr/bin/env python3
"""Regenerates MANIFEST.json from the table below.  A property is claimed only
if vx/props/<id>.py exists; everything else is listed under not_applicable."""
import json
import os

HERE = os.path.dirname(os.path.dirname(os.path.abspath(__file__)))

T = {
 "C01": ("differential PBT: generated structure programs vs. an independent tree-walking reference interpreter (Hypothesis grammar strategies)",
         "Random search over generated programs x inputs x flags against a second implementation written from the specs; a disagreement is a concrete program. No proof of absence.",
         "The reference interpreter (vx/refinterp.py) is trusted where documents and templates agree; reconciliations are listed in DESIGN.md 4/C01."),
 "C02": ("grammar-based PBT + exhaustive small-scope enumeration + element/context sweep; oracle: transpile returns and compile() succeeds",
         "Every element key x context template is enumerated; all <=5-token programs over a 14-symbol structural alphabet are enumerated (thorough); random well-formed programs to depth 4.",
         "Well-formedness is decided by my generator/recogniser, not by the repo; Python's compile() is the syntax oracle."),
 "C03": ("metamorphic PBT: literal payload substitution must preserve parse shape; exhaustive payloads of length<=2 in fixed contexts",
         "Payload pairs (benign, adversarial) in every literal kind at generated nesting positions; exhaustive for short payloads over the 30 syntax-significant characters.",
         "Shape = parse tree with literal token values abstracted to their kind; the lexer documentation fixes where a literal ends."),
 "C04": ("metamorphic PBT: dropping any suffix of the trailing closers must leave repr(parse(...)) unchanged",
         "Generated closed programs (depth<=4) with every droppable suffix of closers removed.",
         "Structure reprs are deterministic at parse level."),
 "C05": ("exhaustive enumeration + PBT against fractions.Fraction; reference splitter for adjacent literals",
         "All integer literals in a range exhaustively, random huge ones, decimals incl. prefixes of famous constants; all strings over [0-9.] up to a length against a reference splitter.",
         "fractions.Fraction is the arithmetic oracle."),
 "C06": ("round-trip PBT + exhaustive short strings over the escape-relevant alphabet",
         "quotify -> run -> same string, for all short strings over the escape alphabet and random code-page strings to length 40, compression off/on as the property states.",
         "Programs are executed through transpile+exec in one namespace like main.execute_vyxal."),
 "C07": ("exhaustive small rationals + PBT expression trees against fractions.Fraction (exact, type-checked)",
         "All pairs of small reduced rationals x six operators; random large operands; random postfix programs of depth<=5.",
         "fractions.Fraction is the arithmetic oracle; x/0 := 0 and x//0 := 0 as the property states."),
 "C08": ("metamorphic PBT: vectorised call == recursive item-wise application (zip with zero fill), eager and lazy",
         "Curated table computed from elements.yaml at run time; shapes list-scalar / scalar-list / list-list, nested, eager/lazy.",
         "The scalar behaviour of each element is taken from the element itself; only the lifting is checked."),
 "C09": ("PBT with sentinel prefix below type-directed argument tuples for every element and modifier x element",
         "Every table key (and modifier x element) executed on sentinels+args; identity and value of sentinels compared.",
         "Documented whole-stack operations are exempt (listed in evidence)."),
 "C10": ("PBT: snapshot-before/compare-after of arguments built from plain-data specs; copy-op programs",
         "Every element on eager/lazy/partially forced/shared arguments; programs <value><copy-op><elements> comparing the untouched copy.",
         "The denotation of an argument is known from its spec, not from observing the object."),
 "C11": ("model-based PBT over read histories rendered to programs; model = cyclic cursor",
         "Generated histories of explicit/implicit reads at top level and inside lambda/function scopes; inputs 0-4 distinct values.",
         "Scoped implicit reads are only required to be periodic permutations of the call's arguments, as the property states."),
 "C12": ("PBT over core-grammar programs with break/recurse; invariant on ctx depth tuple after every top-level statement",
         "Generated terminating programs; (context_values, inputs, stacks, function_stack) depths compared with the initial tuple.",
         "Only programs that finish normally are claimed."),
 "C13": ("stateful model-based testing (Hypothesis RuleBasedStateMachine) + exhaustive short histories; model = Python list",
         "Observation histories on LazyList(iter(xs)) vs the list xs; invariant: listify() == xs.",
         "Out-of-range slices follow Python list semantics on the model; wrap-around indexing as the property states."),
 "C14": ("PBT over compositions of catalogued lazy transformations on an instrumented infinite source (pull counter + fuel)",
         "Catalogue of transformations x n<=40 x take/index; declared linear demand bounds.",
         "Termination is decided by deterministic fuel, not wall clock."),
 "C15": ("round-trip PBT + exhaustive ranges with boundary emphasis (b^k-1, b^k, b^k+1)",
         "Compression elements and base conversion on exhaustive small ranges, boundary values and random large values.",
         "Compressed text is evaluated by running it as a program."),
 "C16": ("exhaustive small lists + PBT against laws written with itertools/builtins",
         "All int lists up to a length over a small alphabet, eager and lazy; random longer lists/strings.",
         "Reference definitions are the textbook ones written in the check."),
 "C17": ("exhaustive ranges + PBT against naive reference definitions",
         "n in a range exhaustively, random larger n, pairs for dyads.",
         "Naive references (trial division etc.) are the oracle."),
 "C18": ("structured injection (exhaustive short payloads per slot) + random/fuzzed raw strings; oracle: AST walk of the generated Python against a run-time vocabulary",
         "Payloads at every slot that accepts program text; all raw strings up to a length over an adversarial alphabet; random code-page/Unicode strings.",
         "The identifier vocabulary is computed from the tree under test by transpiling a benign corpus."),
 "C19": ("PBT over printing/eval programs in online mode with audit hooks, canary builtin and stdout capture",
         "Generated programs with taint-carrying inputs/strings run through execute_vyxal(online_mode=True) in-process.",
         "Checked in-process, not through Flask/multiprocessing."),
 "C20": ("exhaustive enumeration of the finite domain (code page, byte strings <=2, all table keys, all yaml entries)",
         "Complete enumeration on every run: exhaustive=true for the whole property domain.",
         "elements.yaml is read by a hand-written reader for the YAML subset it uses."),
}


def main():
    checks, na = [], []
    for pid in sorted(T):
        tech, text, note = T[pid]
        if os.path.exists(os.path.join(HERE, "vx", "props", pid.lower() + ".py")):
            checks.append({
                "property_id": pid,
                "quick_cmd": f"/venv/bin/python check.py {pid} --tier quick",
                "thorough_cmd": f"/venv/bin/python check.py {pid} --tier thorough",
                "evidence_file": f"evidence/{pid}.json",
                "replay_cmd_template": f"/venv/bin/python check.py {pid} --replay {{path}}",
                "engine": "vx",
                "level_claimed": {"category": "exploration", "text": text, "design_ref": f"DESIGN.md section 4 / {pid}"},
                "level_note": note,
                "technique": tech,
            })
        else:
            na.append({"property_id": pid, "reason": "check not built yet in this session (planned: " + tech + ")"})
    m = {
        "version": 1,
        "setup_cmd": "./setup.sh",
        "hooks": {
            "guard": "VYXAL2_VERIF",
            "enable": "no source hooks exist: every observation point is reachable from Python; checks import /repo's working tree directly (VYXAL2_VERIF=1 is set by the harness but read by nothing in /repo)",
            "baseline_off_cmd": "cd /repo && /venv/bin/python -m pytest -ra -q -p no:cacheprovider --timeout=900 --continue-on-collection-errors",
            "source_commits": [],
            "add_only": True,
        },
        "engines": [{"name": "vx", "path": "check.py", "serves_properties": [c["property_id"] for c in checks],
                     "kind_free_text": "Hypothesis property-based testing, stateful model-based testing, exhaustive small-scope enumeration on 16 cores; failures bucketed by signature, shrunk to plain-data replay files"}],
        "checks": checks,
        "not_applicable": na,
        "notes": "All checks: cwd=/verif, VERIF_SEED respected, PYTHONHASHSEED pinned to 0 by check.py. Exit 2 = harness error/inconclusive. Known findings: known-findings.txt.",
    }
    with open(os.path.join(HERE, "MANIFEST.json"), "w", encoding="utf-8") as f:
        json.dump(m, f, indent=1, ensure_ascii=False)
        f.write("\n")
    print("claimed:", [c["property_id"] for c in checks])


if __name__ == "__main__":
    main()
