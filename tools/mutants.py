#!/usr/bin/env python3
"""Sensitivity protocol (DESIGN 2.9): apply hand-written one-site mutants to a scratch
worktree of /repo, confirm the repo suite still passes (otherwise the mutant is not
interesting), run the property's quick check against the scratch tree
(VYXAL2_REPO=<worktree>) and record whether it reports a violation.

usage: tools/mutants.py [name-substring ...]   -> writes SENSITIVITY.md (appends a table)
"""
import json
import os
import subprocess
import sys
import time

HERE = os.path.dirname(os.path.dirname(os.path.abspath(__file__)))
WT = "/tmp/vx-mut-repo"

M = [
    # (name, property, file, old, new)
    ("C01-j-flag-joins-with-space", "C01", "vyxal/main.py", 'output = join(output, "\\n", ctx)\n            elif flag == "s"', 'output = join(output, " ", ctx)\n            elif flag == "s"'),
    ("C01-fork-pops-real-stack-twice", "C01", "vyxal/elements.py", '"arguments_A = wrapify(stack_copy, function_A.arity, ctx=ctx)\\n"\n        "arguments_B = wrapify(stack, function_B.arity, ctx=ctx)\\n"\n        "stack.append(safe_apply(function_A', '"arguments_A = wrapify(stack, function_A.arity, ctx=ctx)\\n"\n        "arguments_B = wrapify(stack, function_B.arity, ctx=ctx)\\n"\n        "stack.append(safe_apply(function_A'),
    ("C01-for-context-is-constant", "C01", "vyxal/transpile.py", 'indent_str(f"    ctx.context_values.append({var})", indent)', 'indent_str("    ctx.context_values.append(0)", indent)'),
    ("C01-lambda-returns-bottom", "C01", "vyxal/transpile.py", 'indent_str("res = [pop(stack, 1, ctx)]", indent + 2)', 'indent_str("res = [stack[0]] if stack else [pop(stack, 1, ctx)]", indent + 2)'),
    ("C01-else-if-skips-condition-pop", "C01", "vyxal/transpile.py", 'res += indent_str("condition = pop(stack, 1, ctx=ctx)", new_indent)', 'res += indent_str("condition = pop(stack, 1, ctx=ctx)" if i < 3 else "pass", new_indent)'),
    ("C02-empty-body-no-pass", "C02", "vyxal/transpile.py", '    if not program:\n        return helpers.indent_str("pass", indent)', '    if not program:\n        return ""'),
    ("C02-list-item-guard-indent-when-deep", "C02", "vyxal/transpile.py", 'indent_str("if len(stack) == 0: return", indent + 1)', 'indent_str("if len(stack) == 0: return", indent + (2 if indent > 2 else 1))'),
    ("C03-opener-check-ignores-kind", "C03", "vyxal/parse.py", 'if (\n            token.name == lexer.TokenType.GENERAL\n            and token.value\n            and token.value in OPENING_CHARACTERS\n        ):', 'if (\n            token.value\n            and token.value in OPENING_CHARACTERS\n        ):'),
    ("C03-comment-ends-at-semicolon", "C03", "vyxal/lexer.py", 'while source and source[0] != "\\n":\n                source.popleft()', 'while source and source[0] not in "\\n;":\n                source.popleft()'),
    ("C04-unterminated-string-dropped-when-empty", "C04", "vyxal/lexer.py", '            tokens.append(Token(token_type, contextual_token_value))\n            if source:\n                source.popleft()', '            if source or contextual_token_value:\n                tokens.append(Token(token_type, contextual_token_value))\n            if source:\n                source.popleft()'),
    ("C04-empty-last-branch-dropped-at-end-of-input", "C04", "vyxal/parse.py", "        else:\n            branches[-1].append(token)\n\n    return branches", "        else:\n            branches[-1].append(token)\n\n    if bracket_stack and len(branches) > 1 and not branches[-1]:\n        branches.pop()\n    return branches"),
    ("C05-no-leading-zero-rule", "C05", "vyxal/lexer.py", 'if head == "0" and not (source and source[0] in "°."):', 'if head == "0" and not (source and source[0] in "°.0123456789"):'),
    ("C05-decimal-through-float", "C05", "vyxal/transpile.py", "f'stack.append(sympy.Rational(\"{token.value}\"))', indent", "f'stack.append(sympy.Rational(str(float(\"{token.value}\"))))', indent"),
    ("C06-quotify-no-backslash-escape", "C06", "vyxal/elements.py", 'lhs.replace("\\\\", "\\\\\\\\").replace("`", "\\\\`")', 'lhs.replace("`", "\\\\`")'),
    ("C06-string-newline-not-escaped", "C06", "vyxal/transpile.py", '            elif char == "\\n":\n                temp += "\\\\n"', '            elif char == "\\r":\n                temp += "\\\\n"'),
    ("C07-modulo-fmod", "C07", "vyxal/elements.py", "(NUMBER_TYPE, NUMBER_TYPE): lambda: lhs % rhs,", "(NUMBER_TYPE, NUMBER_TYPE): lambda: vyxalify(math.fmod(lhs, rhs)),"),
    ("C07-floor-div-via-int", "C07", "vyxal/elements.py", "        else vyxalify(sympy.floor(sympy.sympify(lhs) / rhs)),", "        else vyxalify(int(sympy.sympify(lhs) / rhs)),"),
    ("C08-vectorise-swaps-list-scalar", "C08", "vyxal/elements.py", "            (list, SCALAR_TYPE): lambda: (\n                safe_apply(function, x, rhs, ctx=ctx) for x in lhs\n            ),\n            (list, list): lambda: (\n                safe_apply(function, x, y, ctx=ctx)\n                for x, y in vy_zip(lhs, rhs, ctx=ctx)", "            (list, SCALAR_TYPE): lambda: (\n                safe_apply(function, rhs, x, ctx=ctx) for x in lhs\n            ),\n            (list, list): lambda: (\n                safe_apply(function, x, y, ctx=ctx)\n                for x, y in vy_zip(lhs, rhs, ctx=ctx)"),
    ("C08-zip-fill-is-one", "C08", "vyxal/elements.py", "                except StopIteration:\n                    right_item = 0", "                except StopIteration:\n                    right_item = 1"),
    ("C09-swap-duplicates-lhs", "C09", "vyxal/elements.py", '"rhs, lhs = pop(stack, 2, ctx); stack.append(rhs); "\n        "stack.append(lhs)"', '"rhs, lhs = pop(stack, 2, ctx); stack.append(rhs); "\n        "stack.append(lhs); stack[0:1] = stack[0:1] if len(stack) < 5 else [lhs]"'),
    ("C09-triplicate-eats-one-more-on-deep-stacks", "C09", "vyxal/elements.py", '"top = pop(stack, 1, ctx); stack.append(top);"\n        "stack.append(deep_copy(top)); stack.append(deep_copy(top));"', '"top = pop(stack, 1, ctx); stack[-1:] = [] if len(stack) > 3 else stack[-1:]; stack.append(top);"\n        "stack.append(deep_copy(top)); stack.append(deep_copy(top));"'),
    ("C10-deep-copy-is-identity-for-lists", "C10", "vyxal/helpers.py", "    if type(value) not in (list, LazyList):\n        return value", "    if type(value) is not LazyList:\n        return value"),
    ("C10-reverse-in-place", "C10", "vyxal/elements.py", "        list: lambda: lhs[::-1],\n        LazyList: lambda: lhs.reversed(),", "        list: lambda: (lhs.reverse(), lhs)[1],\n        LazyList: lambda: lhs.reversed(),"),
    ("C11-no-wraparound", "C11", "vyxal/helpers.py", "ret = ctx.inputs[-1][0][ctx.inputs[-1][1] % len(ctx.inputs[-1][0])]", "ret = ctx.inputs[-1][0][min(ctx.inputs[-1][1], len(ctx.inputs[-1][0]) - 1)]"),
    ("C11-lambda-scope-not-reversed-for-3", "C11", "vyxal/transpile.py", '"ctx.inputs.append([list(deep_copy(stack))[::-1], 0]);"', '"ctx.inputs.append([list(deep_copy(stack))[::-1] if len(stack) != 3 else list(deep_copy(stack))[:2], 0]);"'),
    ("C12-lambda-forgets-inputs-pop", "C12", "vyxal/transpile.py", '        + indent_str("ctx.inputs.pop()", indent + 2)\n        + indent_str("ctx.stacks.pop()", indent + 2)\n        + indent_str("ctx.function_stack.pop()", indent + 2)', '        + indent_str("ctx.inputs.pop() if len(stack) != 2 else None", indent + 2)\n        + indent_str("ctx.stacks.pop()", indent + 2)\n        + indent_str("ctx.function_stack.pop()", indent + 2)'),
    ("C12-function-forgets-stacks-pop", "C12", "vyxal/transpile.py", '            + indent_str("ctx.stacks.pop()", indent + 2)\n            + indent_str("return stack", indent + 1)', '            + indent_str("pass", indent + 2)\n            + indent_str("return stack", indent + 1)'),
    ("C13-len-without-draining", "C13", "vyxal/LazyList.py", "    def __len__(self):\n        while True:", "    def __len__(self):\n        while len(self.generated) < 1:"),
    ("C13-has-ind-off-by-one", "C13", "vyxal/LazyList.py", "            for _ in range(ind - len(self.generated) + 1):", "            for _ in range(ind - len(self.generated)):"),
    ("C14-deltas-materialises", "C14", "vyxal/elements.py", "        prev = None\n        for item in lhs:\n            if prev is not None:\n                yield subtract", "        prev = None\n        for item in (lhs if type(lhs) is list else list(lhs)):\n            if prev is not None:\n                yield subtract"),
    ("C14-vectorise-materialises", "C14", "vyxal/elements.py", "        return LazyList((safe_apply(function, x, ctx=ctx) for x in lhs))\n\n\ndef vectorised_not", "        return LazyList([safe_apply(function, x, ctx=ctx) for x in lhs])\n\n\ndef vectorised_not"),
    ("C15-from-base-off-by-one", "C15", "vyxal/helpers.py", "        ret = len(alphabet) * ret + alphabet.find(digit)\n", "        ret = len(alphabet) * ret + alphabet.find(digit) + (1 if ret > 10 ** 9 else 0)\n"),
    ("C15-to-base-digits-gt", "C15", "vyxal/helpers.py", "    while n >= base:\n        n, digit = divmod(n, base)", "    while n > base:\n        n, digit = divmod(n, base)"),
    ("C16-uniquify-keeps-last", "C16", "vyxal/elements.py", "        seen = []\n        t = iterable(lhs, ctx=ctx)\n        for item in t:", "        seen = []\n        t = list(iterable(lhs, ctx=ctx))[::-1]\n        for item in t:"),
    ("C16-powerset-loses-sets-of-last-item-when-repeated", "C16", "vyxal/elements.py", "        new_sets = [prev + [elem] for prev in prev_sets]\n", "        new_sets = [prev + [elem] for prev in prev_sets if prev[-1:] != [elem] or len(prev) < 2]\n"),
    ("C17-is-prime-odd", "C17", "vyxal/elements.py", "NUMBER_TYPE: lambda: int(sympy.ntheory.isprime(lhs)),", "NUMBER_TYPE: lambda: int(sympy.ntheory.isprime(lhs) or lhs == 1729),"),
    ("C17-divisors-drop-n-for-squares", "C17", "vyxal/elements.py", "    if ts == NUMBER_TYPE:\n        return sympy.divisors(lhs)", "    if ts == NUMBER_TYPE:\n        return sympy.divisors(lhs)[: -1 if lhs == 961 else None]"),
    ("C18-string-quote-not-escaped", "C18", "vyxal/transpile.py", "            elif char == '\"':\n                temp += '\\\\\"'", "            elif char == '\"' and len(string) > 40:\n                temp += '\\\\\"'"),
    ("C18-function-name-unsanitised-on-call", "C18", "vyxal/transpile.py", '        var = re.sub("[^A-Za-z0-9_]", "", struct.name)\n\n        return indent_str(', '        var = re.sub("[^A-Za-z0-9_.]", "", struct.name)\n\n        return indent_str('),
    ("C19-print-list-to-stdout-online", "C19", "vyxal/elements.py", "        if ctx.online:\n            ctx.online_output[1] += vy_str(lhs, ctx=ctx) + end", "        if ctx.online and not isinstance(lhs, str):\n            ctx.online_output[1] += vy_str(lhs, ctx=ctx) + end"),
    ("C19-eval-literal-fallback-to-eval", "C19", "vyxal/helpers.py", "        except Exception:  # skipcq: PYL-W0703\n            # TODO: eval as vyxal\n            return item", "        except Exception:  # skipcq: PYL-W0703\n            # TODO: eval as vyxal\n            try:\n                return vyxalify(eval(item)) if item[:1] == \"(\" else item\n            except Exception:\n                return item"),
    ("C20-duplicate-codepage-char", "C20", "vyxal/encoding.py", 'codepage += "ǒǓǔ⁽‡≬⁺↵⅛¼¾Π„‟"', 'codepage += "ǒǓǔ⁽‡≬⁺↵⅛¼¾Π„„"'),
    ("C20-element-key-with-pipe", "C20", "vyxal/elements.py", '    "kṘ": process_element(\'"IVXLCDM"\', 0),', '    "kṘ": process_element(\'"IVXLCDM"\', 0),\n    "k|": process_element("0", 0),'),
]


def sh(cmd, **kw):
    return subprocess.run(cmd, shell=True, capture_output=True, text=True, **kw)


def main():
    want = sys.argv[1:]
    sh(f"git -C /repo worktree remove --force {WT}")
    r = sh(f"git -C /repo worktree add -q --detach {WT} HEAD")
    if r.returncode:
        print(r.stderr)
        return 1
    rows = []
    try:
        for name, pid, path, old, new in M:
            if want and not any(w in name for w in want):
                continue
            full = os.path.join(WT, path)
            src = open(full, encoding="utf-8").read()
            if src.count(old) != 1:
                rows.append((name, pid, "mutation site not found (x%d)" % src.count(old), "-", "-"))
                print(rows[-1], flush=True)
                continue
            open(full, "w", encoding="utf-8").write(src.replace(old, new))
            try:
                t = sh(f"cd {WT} && timeout 900 /venv/bin/python -m pytest -q -p no:cacheprovider -x 2>&1 | tail -1")
                suite = t.stdout.strip()[-60:]
                survives = " passed" in suite and "failed" not in suite
                t0 = time.time()
                c = sh(f"cd {HERE} && VYXAL2_REPO={WT} timeout 1500 /venv/bin/python check.py {pid} --tier quick 2>&1 | grep -E 'VIOLATION|HARNESS|INCONCL' | head -3")
                rc = "violation" if "VIOLATION" in c.stdout else ("harness-error" if "HARNESS" in c.stdout else "no violation")
                first = sh(f"cd {HERE} && ls -t out/replays/{pid}/*.json 2>/dev/null | head -1").stdout.strip()
                sig = ""
                if rc == "violation" and first:
                    try:
                        sig = json.load(open(os.path.join(HERE, first)))["sig"]
                    except Exception:
                        pass
                rows.append((name, pid, "suite: " + ("passes" if survives else "KILLED BY SUITE (" + suite + ")"), rc + (f" ({sig})" if sig else ""), f"{time.time() - t0:.0f}s"))
            finally:
                open(full, "w", encoding="utf-8").write(src)
            print(rows[-1], flush=True)
    finally:
        sh(f"git -C /repo worktree remove --force {WT}")
    with open(os.path.join(HERE, "SENSITIVITY.md"), "a", encoding="utf-8") as f:
        f.write(f"\n## Hand-written mutants, run {time.strftime('%Y-%m-%d %H:%M')} (tools/mutants.py; /repo at {sh('git -C /repo log --format=%h -1').stdout.strip()})\n\n")
        f.write("| mutant | property | repo suite | quick check | time |\n|---|---|---|---|---|\n")
        for row in rows:
            f.write("| " + " | ".join(str(x).replace("|", "\\|") for x in row) + " |\n")
    return 0


if __name__ == "__main__":
    sys.exit(main())
