#!/usr/bin/env python3
"""reseed.py [-j N] [name-substring ...]
Re-validate kept seeds after the checks changed: for every seeded/<name>/ apply patch.diff to a scratch worktree
of /repo (HEAD), run the property's quick check with VYXAL2_REPO=<worktree>, expect exit 1, revert.
Results -> out/reseed.tsv (name, rc, seconds).  Nothing is written to /repo; evidence files are restored."""
import json, os, subprocess, sys, time
from concurrent.futures import ThreadPoolExecutor

HERE = os.path.dirname(os.path.dirname(os.path.abspath(__file__)))
args = sys.argv[1:]
J = 4
if args[:1] == ["-j"]:
    J = int(args[1]); args = args[2:]
names = sorted(n for n in os.listdir(os.path.join(HERE, "seeded")) if os.path.isdir(os.path.join(HERE, "seeded", n)))
if args:
    names = [n for n in names if any(a in n for a in args)]
wts = []
for i in range(J):
    w = f"/tmp/vx-reseed-{i}"
    subprocess.run(["git", "-C", "/repo", "worktree", "remove", "--force", w], capture_output=True)
    subprocess.run(["git", "-C", "/repo", "worktree", "add", "--detach", w, "HEAD", "-f"], capture_output=True, check=True)
    wts.append(w)


def work(slot):
    out = []
    w = wts[slot]
    for n in names[slot::J]:
        d = os.path.join(HERE, "seeded", n)
        pid = json.load(open(os.path.join(d, "meta.json")))["property"]
        a = subprocess.run(["git", "-C", w, "apply", os.path.join(d, "patch.diff")], capture_output=True, text=True)
        if a.returncode != 0:
            out.append((n, "NOAPPLY", 0)); continue
        t = time.time()
        env = dict(os.environ, VYXAL2_REPO=w, VX_OUT_SUFFIX=str(slot))
        r = subprocess.run(["/venv/bin/python", os.path.join(HERE, "check.py"), pid], capture_output=True, text=True, env=env, cwd=HERE)
        out.append((n, r.returncode, round(time.time() - t)))
        subprocess.run(["git", "-C", w, "reset", "-q", "--hard"], capture_output=True)
        subprocess.run(["git", "-C", w, "clean", "-fdq"], capture_output=True)
        print(n, r.returncode, round(time.time() - t), flush=True)
    return out


with ThreadPoolExecutor(J) as ex:
    res = [x for part in ex.map(work, range(J)) for x in part]
os.makedirs(os.path.join(HERE, "out"), exist_ok=True)
with open(os.path.join(HERE, "out", "reseed.tsv"), "w") as f:
    for n, rc, s in sorted(res):
        f.write(f"{n}\t{rc}\t{s}\n")
for w in wts:
    subprocess.run(["git", "-C", "/repo", "worktree", "remove", "--force", w], capture_output=True)
subprocess.run(["git", "-C", HERE, "checkout", "--", "evidence"], capture_output=True)
bad = [(n, rc) for n, rc, _ in res if rc != 1]
print("seeds:", len(res), "caught:", len(res) - len(bad), "not caught:", bad)
