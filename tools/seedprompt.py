#!/usr/bin/env python3
"""seedprompt.py CXX [variant-hint] -> prints the prompt for a mutation sub-agent (property text only)."""
import json, sys
pid = sys.argv[1]
hint = sys.argv[2] if len(sys.argv) > 2 else ""
for l in open('/verif/properties.jsonl', encoding='utf-8'):
    d = json.loads(l)
    if d['id'] == pid:
        break
wt = f"/tmp/seed_{pid}"
out = f"/tmp/seed_{pid}_out"
print(f"""You are working in a scratch git worktree of the Vyxal2 repository at {wt} (Vyxal 2 is a stack-based golfing language implemented in Python: lexer -> parser -> transpiler to Python, plus a big library of builtin elements in vyxal/elements.py; docs under documents/). Work ONLY inside {wt} and {out}. Never read or touch /repo or /verif.

Python is /venv/bin/python. The test suite (392 tests, ~15 s) runs with:
  cd {wt} && /venv/bin/python -m pytest -q -p no:cacheprovider
A Vyxal program can be run in-process like this (run from the worktree directory so the worktree's vyxal package is imported):
  import sys, os, io, contextlib; sys.path.insert(0, os.getcwd())
  from vyxal.main import execute_vyxal
  def run(code, flags="", inputs=()):
      buf = io.StringIO()
      with contextlib.redirect_stdout(buf):
          execute_vyxal(code, flags + "e", list(inputs))   # 'e' = first argument is the program text
      return buf.getvalue()
(Or transpile with vyxal.transpile.transpile(code) and exec the result in ONE namespace dict built from vars(vyxal.main) plus 'stack' and 'ctx' = vyxal.context.Context(); element functions live in vyxal.elements, the lazy list class in vyxal/LazyList.py.)

PROPERTY ({pid}): {d['title']}
Statement: {d['statement']}
Quantified over: {d['quantifier']['text']}
Code it is anchored in: {', '.join(d['anchors']['files'])}

TASK: make a change to the source code that BREAKS this property while the code still imports and the ENTIRE existing test suite still passes. The change must look like a realistic bug (a plausible slip in a refactoring, optimisation, clean-up or small feature tweak - not sabotage with magic constants), and it must need something specific to manifest: an unusual input, a particular multi-step sequence of operations, a particular nesting or position, or two cooperating sites that each look fine alone. It must NOT be something that ordinary use or any simple smoke test would expose at once. {hint}

Deliver, in {out}/ (create it):
 1. patch.diff - `git diff` of your change relative to HEAD (must apply cleanly with `git apply` at HEAD of the worktree).
 2. demo.py - a standalone script, run as `cd {wt} && /venv/bin/python {out}/demo.py`, which imports vyxal from the current directory, exits 0 and prints PASS on the unmodified tree, and exits 1 and prints FAIL with observed vs expected when your change is applied. It should demonstrate a violation of the property as stated above (not of some other behaviour).
 3. notes.md - what you changed, why the existing tests cannot see it, and exactly what is needed for it to manifest.
If you can, deliver a second, independent change touching a different mechanism as patch2.diff / demo2.py (described in the same notes.md).

Before finishing, verify all of this yourself: with the change applied the full test suite passes and demo.py exits 1; with the change reverted demo.py exits 0 (NEVER use `git stash`: the stash is shared between worktrees and other agents are working in parallel; save your change with `git diff > file.diff`, revert with `git checkout -- .`, re-apply with `git apply file.diff`). Leave the worktree clean (change reverted) at the end; the deliverables in {out}/ are what counts. Report briefly what you did.""")
