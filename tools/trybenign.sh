#!/bin/bash
# trybenign.sh PID PATCH DEMO [tier] - apply a property-PRESERVING change to /repo, confirm (tests pass, demo passes),
# run the property's check (it must stay quiet), revert.
PID=$1; PATCH=$2; DEMO=$3; TIER=${4:-quick}
cd /repo || exit 9
if [ -n "$(git status --porcelain)" ]; then echo "REPO DIRTY - abort"; exit 9; fi
git apply "$PATCH" || { echo "PATCH DOES NOT APPLY"; exit 9; }
trap 'cd /repo; git apply -R "$PATCH" 2>/dev/null; git checkout -- . ; git clean -fdq vyxal documents 2>/dev/null; git status --porcelain | head -3' EXIT
if [ -z "$SKIPTESTS" ]; then
  T=$(timeout 900 /venv/bin/python -m pytest -q -p no:cacheprovider 2>&1 | grep -E "passed|failed" | tail -1); echo "tests(with change): $T"
fi
(cd /repo && timeout 600 /venv/bin/python "$DEMO" </dev/null >/tmp/demo.out 2>&1); echo "demo(with change) rc=$? : $(tail -1 /tmp/demo.out | cut -c1-200)"
cd /verif
S=$(date +%s)
timeout 3000 /venv/bin/python check.py "$PID" --tier "$TIER" > /tmp/check.out 2>&1; RC=$?
echo "check $PID $TIER rc=$RC in $(( $(date +%s) - S ))s"; grep -E "VIOLATION|HARNESS|INCONCL" /tmp/check.out | head -5; grep -B1 VIOLATION /tmp/check.out | grep -v VIOLATION | head -4 | cut -c1-400
git -C /verif checkout -- evidence 2>/dev/null
