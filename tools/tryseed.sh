#!/bin/bash
# tryseed.sh PID PATCH DEMO [tier]  - apply a seeded change to /repo, confirm (tests pass, demo fails), run the check, revert.
PID=$1; PATCH=$2; DEMO=$3; TIER=${4:-quick}
cd /repo || exit 9
if [ -n "$(git status --porcelain)" ]; then echo "REPO DIRTY - abort"; exit 9; fi
git apply "$PATCH" || { echo "PATCH DOES NOT APPLY"; exit 9; }
trap 'cd /repo; git apply -R "$PATCH" 2>/dev/null; git checkout -- . ; git status --porcelain | head -3' EXIT
if [ -z "$SKIPTESTS" ]; then
  T=$(timeout 900 /venv/bin/python -m pytest -q -p no:cacheprovider 2>&1 | grep -E "passed|failed" | tail -1); echo "tests(with change): $T"
fi
(cd /repo && timeout 600 /venv/bin/python "$DEMO" >/tmp/demo.out 2>&1); echo "demo(with change) rc=$? : $(tail -2 /tmp/demo.out | tr '\n' ' ' | cut -c1-300)"
cd /verif
S=$(date +%s)
timeout 3000 /venv/bin/python check.py "$PID" --tier "$TIER" > /tmp/check.out 2>&1; RC=$?
echo "check $PID $TIER rc=$RC in $(( $(date +%s) - S ))s"; grep -E "VIOLATION|HARNESS|INCONCL" /tmp/check.out | head -5; grep -B1 VIOLATION /tmp/check.out | grep -v VIOLATION | head -3 | cut -c1-300
git -C /verif checkout -- evidence 2>/dev/null
