"""Campaign bookkeeping: recording cases, bucketing failures by signature,
sharding over processes, shrinking plain-data cases, known findings, evidence.
"""
from __future__ import annotations

import hashlib
import json
import multiprocessing as mp
import os
import sys
import time
import traceback
from collections import Counter

VERIF = os.path.dirname(os.path.dirname(os.path.abspath(__file__)))
KNOWN_FILE = os.path.join(VERIF, "known-findings.txt")
NCPU = max(1, min(16, os.cpu_count() or 1))


def h64(obj) -> int:
    s = obj if isinstance(obj, str) else json.dumps(obj, sort_keys=True, default=repr, ensure_ascii=False)
    return int.from_bytes(hashlib.blake2b(s.encode("utf-8", "surrogatepass"), digest_size=8).digest(), "big")


class Rec:
    """What one shard (or the whole run) observed."""

    MAX_SAMPLES = 10

    def __init__(self):
        self.evaluations = 0
        self.nt_hashes = set()      # distinct non-trivial cases (hash of key)
        self.nt_disjoint = 0        # non-trivial cases counted in disjoint enumerations
        self.classes = Counter()
        self.discards = Counter()
        self.samples = []
        self.failures = {}          # sig -> dict(case, msg, count, size)
        self.notes = {}
        self.max_fuel = 0
        self.exhaustive = []        # names of finite sub-domains enumerated completely

    # -- recording ---------------------------------------------------------
    def case(self, key=None, nontrivial=False, cls=None, sample=None, n=1):
        self.evaluations += n
        if nontrivial:
            if key is None:
                self.nt_disjoint += n
            else:
                self.nt_hashes.add(h64(key))
        if cls is not None:
            if isinstance(cls, (list, tuple)):
                for c in cls:
                    self.classes[c] += n
            else:
                self.classes[cls] += n
        if sample is not None and len(self.samples) < self.MAX_SAMPLES:
            self.samples.append(sample)

    def sample(self, s, force=False):
        if force or len(self.samples) < self.MAX_SAMPLES:
            self.samples.append(s)

    def discard(self, reason):
        self.discards[reason] += 1

    def fail(self, sig: str, case, msg: str):
        sig = sig.replace(" ", "_").replace("\n", "\\n")
        size = len(json.dumps(case, default=repr, ensure_ascii=False))
        f = self.failures.get(sig)
        if f is None:
            self.failures[sig] = {"case": case, "msg": msg, "count": 1, "size": size}
        else:
            f["count"] += 1
            if size < f["size"]:
                f.update(case=case, msg=msg, size=size)

    def fuel(self, used):
        if used > self.max_fuel:
            self.max_fuel = used

    # -- merge ---------------------------------------------------------------
    def export(self):
        return {
            "evaluations": self.evaluations, "nt_hashes": self.nt_hashes,
            "nt_disjoint": self.nt_disjoint, "classes": self.classes,
            "discards": self.discards, "samples": self.samples,
            "failures": self.failures, "notes": self.notes,
            "max_fuel": self.max_fuel, "exhaustive": self.exhaustive,
        }

    def merge(self, d):
        self.evaluations += d["evaluations"]
        self.nt_hashes |= d["nt_hashes"]
        self.nt_disjoint += d["nt_disjoint"]
        self.classes.update(d["classes"])
        self.discards.update(d["discards"])
        for s in d["samples"]:
            if len(self.samples) < self.MAX_SAMPLES * 2:
                self.samples.append(s)
        for sig, f in d["failures"].items():
            g = self.failures.get(sig)
            if g is None:
                self.failures[sig] = dict(f)
            else:
                g["count"] += f["count"]
                if f["size"] < g["size"]:
                    g.update(case=f["case"], msg=f["msg"], size=f["size"])
        self.notes.update(d["notes"])
        self.max_fuel = max(self.max_fuel, d["max_fuel"])
        for e in d["exhaustive"]:
            if e not in self.exhaustive:
                self.exhaustive.append(e)

    @property
    def distinct_nontrivial(self):
        return len(self.nt_hashes) + self.nt_disjoint


# ----------------------------------------------------------------------------
# sharding
# ----------------------------------------------------------------------------
def _worker(payload):
    fn, arg = payload
    from vx import harness

    if not os.environ.get("VX_NO_RLIMIT"):
        harness.limit_memory(3.0)
    rec = Rec()
    try:
        fn(rec, arg)
    except harness.Inconclusive:
        rec.discards["shard-watchdog"] += 1
    except BaseException:
        return {"error": traceback.format_exc()}
    return rec.export()


class HarnessError(Exception):
    pass


def parallel(rec: Rec, fn, args, procs: int | None = None, fresh: bool = False):
    """Run fn(rec_i, arg) for every arg in worker processes; merge into rec.
    fn must be a module-level function (fork start method).
    fresh=True: every arg gets a newly forked process (a copy of this parent, in which the code under test has
    not been exercised), so that state kept by the code under test between calls starts cold for each arg."""
    args = list(args)
    if not args:
        return
    procs = min(procs or NCPU, len(args))
    if (procs <= 1 and not fresh) or os.environ.get("VX_SERIAL"):
        for a in args:
            out = _worker((fn, a))
            if "error" in out:
                raise HarnessError(out["error"])
            rec.merge(out)
        return
    ctx = mp.get_context("fork")
    with ctx.Pool(max(1, procs), maxtasksperchild=1 if fresh else None) as pool:
        for out in pool.imap_unordered(_worker, [(fn, a) for a in args], chunksize=1):
            if "error" in out:
                pool.terminate()
                raise HarnessError(out["error"])
            rec.merge(out)


# ----------------------------------------------------------------------------
# hypothesis helpers
# ----------------------------------------------------------------------------
def hyp_run(test_fn, strategy_kwargs: dict, seed: int, max_examples: int):
    """Drive `test_fn(**drawn)` with Hypothesis: generate phase only, seeded,
    no database, no deadline.  test_fn records failures and returns normally."""
    import hypothesis
    from hypothesis import HealthCheck, Phase, given, settings

    st = settings(
        max_examples=max_examples, database=None, deadline=None, derandomize=False,
        phases=[Phase.generate], report_multiple_bugs=False,
        suppress_health_check=list(HealthCheck), print_blob=False,
    )
    wrapped = hypothesis.seed(seed)(st(given(**strategy_kwargs)(test_fn)))
    wrapped()


def hyp_fuzz_target(test_fn, strategy_kwargs):
    """The Hypothesis property as a bytes -> None function (for coverage-guided fuzzing)."""
    from hypothesis import HealthCheck, given, settings

    st = settings(database=None, deadline=None, suppress_health_check=list(HealthCheck))
    return st(given(**strategy_kwargs)(test_fn)).hypothesis.fuzz_one_input


def atheris_tier(rec, pid, runs, seed, procs=8, max_len=64):
    """Run vx.fuzz_atheris children; merge what they found into rec.  Returns False if atheris is unavailable."""
    import subprocess
    import tempfile

    deps = os.path.join(VERIF, ".deps")
    probe = subprocess.run([sys.executable, "-c", "import sys; sys.path.insert(0, %r); import atheris" % deps], capture_output=True)
    if probe.returncode != 0:
        rec.notes["atheris"] = "not installed: coverage-guided tier skipped"
        return False
    tmp = tempfile.mkdtemp(prefix="vx-atheris-")
    children = []
    for i in range(procs):
        out = os.path.join(tmp, f"out{i}.jsonl")
        env = dict(os.environ)
        env["PYTHONHASHSEED"] = "0"
        children.append((out, subprocess.Popen([sys.executable, "-m", "vx.fuzz_atheris", pid, str(runs), str(seed * 100 + i + 1), out, str(max_len)],
                                               cwd=VERIF, env=env, stdout=subprocess.DEVNULL, stderr=subprocess.DEVNULL)))
    execs = 0
    herr = 0
    for out, ch in children:
        try:
            ch.wait(timeout=3 * 3600)
        except subprocess.TimeoutExpired:
            ch.kill()
        last = 0
        if os.path.exists(out):
            for line in open(out, encoding="utf-8"):
                try:
                    d = json.loads(line)
                except ValueError:
                    continue
                if "executions" in d:
                    last = d["executions"]
                elif "harness_error" in d:
                    herr += 1
                else:
                    rec.fail(d["sig"], d["case"], d["msg"] + " [found by the coverage-guided tier]")
        execs += last
    import shutil

    shutil.rmtree(tmp, ignore_errors=True)
    rec.classes["atheris-executions"] += execs
    rec.evaluations += execs
    rec.notes["atheris"] = f"{procs} libFuzzer processes x {runs} runs, {execs} executions counted, {herr} harness errors"
    return True


# ----------------------------------------------------------------------------
# shrinking of plain-data cases (used after the campaign, on each new signature)
# ----------------------------------------------------------------------------
def _candidates(v):
    """Smaller variants of a JSON-like value (generic, type preserving)."""
    if isinstance(v, bool):
        return
    if isinstance(v, int):
        if v != 0:
            yield 0
            if abs(v) > 1:
                yield v // 2
                yield v - 1 if v > 0 else v + 1
            if v < 0:
                yield -v
        return
    if isinstance(v, str):
        n = len(v)
        if n == 0:
            return
        yield ""
        step = n // 2
        while step >= 1:
            for i in range(0, n, step):
                yield v[:i] + v[i + step:]
            step //= 2
        return
    if isinstance(v, list):
        n = len(v)
        step = n // 2
        while step >= 1:
            for i in range(0, n, step):
                yield v[:i] + v[i + step:]
            step //= 2
        for i, x in enumerate(v):
            # hoist a child of the same JSON type in place of the parent's slot
            if isinstance(x, list):
                for y in x:
                    if isinstance(y, list):
                        yield v[:i] + [y] + v[i + 1:]
            for c in _candidates(x):
                yield v[:i] + [c] + v[i + 1:]
        return
    if isinstance(v, dict):
        for k in list(v):
            for c in _candidates(v[k]):
                d = dict(v)
                d[k] = c
                yield d
        return


def shrink(case, still_fails, budget: int = 400):
    """Greedy descent: accept any smaller candidate on which still_fails(case)
    is true.  still_fails must be total (exceptions count as 'no')."""
    calls = 0
    improved = True
    while improved and calls < budget:
        improved = False
        for cand in _candidates(case):
            if calls >= budget:
                break
            calls += 1
            try:
                ok = still_fails(cand)
            except Exception:
                ok = False
            if ok:
                case = cand
                improved = True
                break
    return case, calls


# ----------------------------------------------------------------------------
# known findings
# ----------------------------------------------------------------------------
def load_known(pid: str):
    """-> (dict sig -> description, list of fixed lines)"""
    known, fixed = {}, []
    if not os.path.exists(KNOWN_FILE):
        return known, fixed
    with open(KNOWN_FILE, encoding="utf-8") as f:
        for line in f:
            line = line.rstrip("\n")
            if line.startswith("finding:"):
                parts = line.split()
                if len(parts) >= 3 and parts[1] == f"property={pid}" and parts[2].startswith("sig="):
                    known[parts[2][4:]] = " ".join(parts[3:])
            elif line.startswith("fixed:"):
                parts = line.split()
                if len(parts) >= 2 and parts[1] == f"property={pid}":
                    fixed.append(line)
    return known, fixed


def sig_hash(sig: str) -> str:
    return hashlib.blake2b(sig.encode("utf-8"), digest_size=6).hexdigest()


def write_json(path, obj):
    os.makedirs(os.path.dirname(path), exist_ok=True)
    tmp = path + ".tmp"
    with open(tmp, "w", encoding="utf-8") as f:
        json.dump(obj, f, ensure_ascii=False, indent=1, default=repr)
        f.write("\n")
    os.replace(tmp, path)
