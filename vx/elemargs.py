"""Type-directed argument generation for element-level checks (C09, C10).

Specs are plain data (see harness.build_value) extended with ("f", i): the
i-th function of a small pool, created freshly for every case by running a
lambda literal (so state such as stored_arity cannot leak between cases).
"""
from __future__ import annotations

from hypothesis import strategies as st

from vx import harness, yamlmini

FUN_SOURCES = ["λd;", "λ2|+;", "λ2%;", "λ‹;", "λ0>;"]
_OV = None


def overloads():
    """key -> list of type tuples (each a tuple of 'num'|'str'|'lst'|'fun'|'any')"""
    global _OV
    if _OV is None:
        _OV = {}
        for e in yamlmini.load(repo=harness.REPO):
            if e["kind"] != "element":
                continue
            tts = []
            for o in e.get("overloads", {}):
                parts = tuple({"string": "str", "list": "lst", "number": "num", "function": "fun"}.get(p.strip(), p.strip())
                              for p in o.split("-"))
                if all(p in ("num", "str", "lst", "fun", "any") for p in parts):
                    tts.append(parts)
            _OV.setdefault(e["key"], [])
            _OV[e["key"]] += tts
    return _OV


def make_function(i, ctx=None):
    stack = []
    r = harness.exec_py(harness.transpile(FUN_SOURCES[i % len(FUN_SOURCES)]), stack, ctx or harness.fresh_ctx())
    assert r.exc is None and len(stack) == 1
    return stack[0]


def build(spec, ctx=None):
    if isinstance(spec, (list, tuple)) and spec and spec[0] == "f":
        return make_function(spec[1], ctx)
    if isinstance(spec, (list, tuple)) and spec and spec[0] in ("l", "z"):
        items = [build(x, ctx) for x in spec[1]]
        if spec[0] == "l":
            return items
        ll = harness.LazyList(iter(items))
        for _ in range(spec[2] if len(spec) > 2 else 0):
            try:
                next(ll)
            except StopIteration:
                break
        return ll
    return harness.build_value(spec)


def has_function(spec):
    if isinstance(spec, (list, tuple)) and spec:
        if spec[0] == "f":
            return True
        if spec[0] in ("l", "z"):
            return any(has_function(x) for x in spec[1])
    return False


def denotation(spec):
    """norm()-style denotation of a function-free spec."""
    return harness.spec_denotation(spec)


# ---- strategies ------------------------------------------------------------------
NUM = st.one_of(st.integers(-3, 9), st.integers(0, 2), st.integers(0, 2), st.integers(0, 4), st.integers(-3, -1), st.tuples(st.integers(-7, 7), st.integers(2, 4)).map(lambda t: ("q", t[0], t[1])))
STR = st.text("ab1 ,Z(", max_size=4).map(lambda s: ("s", s))
FUN = st.integers(0, len(FUN_SOURCES) - 1).map(lambda i: ("f", i))


def _lst(depth=2, allow_str=True):
    scalar = st.one_of(NUM, NUM, STR) if allow_str else NUM
    node = scalar
    for _ in range(depth):
        inner = node
        lst = st.tuples(st.sampled_from(["l", "l", "z"]), st.lists(inner, max_size=4), st.integers(0, 3)).map(
            lambda t: ("l", t[1]) if t[0] == "l" else ("z", t[1], t[2]))
        node = st.one_of(scalar, scalar, lst)
    return st.tuples(st.sampled_from(["l", "l", "z"]), st.lists(node, max_size=5), st.integers(0, 3)).map(
        lambda t: ("l", t[1]) if t[0] == "l" else ("z", t[1], t[2]))


def _mat():
    row = st.tuples(st.sampled_from(["l", "l", "l", "z"]), st.lists(st.integers(-3, 9), max_size=3), st.integers(0, 2)).map(
        lambda t: ("l", t[1]) if t[0] == "l" else ("z", t[1], t[2]))
    return st.tuples(st.sampled_from(["l", "l", "z"]), st.lists(row, min_size=1, max_size=3), st.integers(0, 2)).map(
        lambda t: ("l", t[1]) if t[0] == "l" else ("z", t[1], t[2]))


MAT = _mat()           # matrices (square, tall, wide, ragged) of small ints
LST = st.one_of(_lst(), _lst(), _lst(), MAT)
ANY = st.one_of(NUM, STR, LST, LST)
BY_TYPE = {"num": NUM, "str": STR, "lst": LST, "fun": FUN, "any": ANY}


def args_for(typetuple):
    if "fun" in typetuple:
        # higher-order overloads mostly work over lists: bias the untyped companions towards (nested) lists
        by = dict(BY_TYPE, any=st.one_of(LST, LST, LST, NUM, STR))
        return st.tuples(*[by[t] for t in typetuple])
    return st.tuples(*[BY_TYPE[t] for t in typetuple])


def random_args(arity):
    return st.tuples(*[st.one_of(NUM, STR, LST, LST, FUN) for _ in range(arity)])


def args_strategy(key, arity):
    """Mix of documented overload type tuples (of the right length) and random type tuples."""
    tts = [t for t in overloads().get(key, []) if len(t) == arity]
    opts = [args_for(t) for t in tts]
    if arity == 0:
        return st.just(())
    opts.append(random_args(arity))
    if tts:
        opts += [args_for(t) for t in tts]  # weight documented overloads
    return st.one_of(*opts)


def matches_overload(key, specs):
    def ty(s):
        if isinstance(s, int):
            return "num"
        return {"q": "num", "s": "str", "l": "lst", "z": "lst", "f": "fun"}[s[0]]

    got = tuple(ty(s) for s in specs)
    for t in overloads().get(key, []):
        if len(t) == len(got) and all(a == b or a == "any" for a, b in zip(t, got)):
            return True
    return False


def tolist(x):
    return [tolist(y) for y in x] if isinstance(x, (tuple, list)) else x


def totuple(x):
    """JSON -> spec (validated)"""
    if isinstance(x, bool):
        raise ValueError(x)
    if isinstance(x, int):
        return x
    if isinstance(x, list) and x:
        t = x[0]
        if t == "s" and len(x) == 2 and isinstance(x[1], str):
            return ("s", x[1])
        if t == "q" and len(x) == 3 and all(isinstance(v, int) and not isinstance(v, bool) for v in x[1:]) and x[2] > 0:
            return ("q", x[1], x[2])
        if t == "f" and len(x) == 2 and isinstance(x[1], int):
            return ("f", x[1])
        if t == "l" and len(x) == 2 and isinstance(x[1], list):
            return ("l", [totuple(y) for y in x[1]])
        if t == "z" and len(x) in (2, 3) and isinstance(x[1], list):
            k = x[2] if len(x) == 3 and isinstance(x[2], int) and x[2] >= 0 else 0
            return ("z", [totuple(y) for y in x[1]], k)
    raise ValueError(x)
