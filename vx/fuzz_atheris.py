"""Coverage-guided tier (thorough only): atheris/libFuzzer drives either a raw byte target
or a Hypothesis property through `fuzz_one_input`, with the repo's lexer / parser /
transpiler instrumented.  Run as a child process:

    python -m vx.fuzz_atheris <PID> <runs> <seed> <out.jsonl> [max_len]

The target functions are provided by the property module as `fuzz_targets()` ->
{name: callable(bytes) -> list of (sig, case, msg)}.  Failures are appended to out.jsonl;
the last line is a summary {"executions": n}.  libFuzzer's -seed pins a campaign only
approximately: a saved failing case (plain data) is the reproducible unit.
"""
import json
import os
import sys

HERE = os.path.dirname(os.path.dirname(os.path.abspath(__file__)))
sys.path.insert(0, os.path.join(HERE, ".deps"))
sys.path.insert(0, HERE)


def main():
    pid, runs, seed, out = sys.argv[1], int(sys.argv[2]), int(sys.argv[3]), sys.argv[4]
    max_len = sys.argv[5] if len(sys.argv) > 5 else "64"
    import atheris

    with atheris.instrument_imports(include=["vyxal.lexer", "vyxal.parse", "vyxal.transpile", "vyxal.helpers"]):
        import importlib

        mod = importlib.import_module(f"vx.props.{pid.lower()}")
    targets = mod.fuzz_targets()
    names = sorted(targets)
    count = [0]
    seen = set()
    f = open(out, "a", encoding="utf-8")

    def target(data):
        if not data:
            return
        count[0] += 1
        fn = targets[names[data[0] % len(names)]]
        try:
            fails = fn(data[1:]) or []
        except BaseException as e:  # noqa: BLE001  (a harness problem must not look like a finding)
            fails = []
            if not isinstance(e, (KeyboardInterrupt, SystemExit)):
                f.write(json.dumps({"harness_error": repr(e)[:300]}) + "\n")
        for sig, case, msg in fails:
            if sig not in seen:
                seen.add(sig)
                f.write(json.dumps({"sig": sig, "case": case, "msg": msg}, ensure_ascii=False) + "\n")
                f.flush()

    import atexit  # noqa: F401  (atexit does not run under libFuzzer's exit: write the summary eagerly)

    corpus = out + ".corpus"
    os.makedirs(corpus, exist_ok=True)

    def summary():
        f.write(json.dumps({"executions": count[0]}) + "\n")
        f.flush()

    # libFuzzer calls _exit at the end of -runs: emit the summary every 1000 executions instead
    orig = target

    def target2(data):
        orig(data)
        if count[0] % 1000 == 0:
            summary()

    atheris.Setup([sys.argv[0], f"-runs={runs}", f"-seed={seed}", f"-max_len={max_len}", "-verbosity=0", "-print_final_stats=0", corpus], target2)
    atheris.Fuzz()


if __name__ == "__main__":
    main()
