"""Shared harness: import of the code under test, one-namespace execution,
deterministic fuel, watchdog, value normalisation.

Everything here is used by the property modules in vx/props.  The code under
test is imported from $VYXAL2_REPO (default /repo) in this very process; there
is no build step, so every run sees the current working tree.
"""
from __future__ import annotations

import contextlib
import io
import os
import signal
import sys
import types
from fractions import Fraction

import warnings

warnings.simplefilter("ignore")  # SyntaxWarning for '\\d' in generated string literals etc. is not an error

REPO = os.environ.get("VYXAL2_REPO", "/repo")
if REPO not in sys.path:
    sys.path.insert(0, REPO)
os.environ.setdefault("VYXAL2_VERIF", "1")  # guard name (no hooks exist; informational)

import sympy  # noqa: E402

import vyxal.context  # noqa: E402
import vyxal.elements  # noqa: E402
import vyxal.encoding  # noqa: E402
import vyxal.helpers  # noqa: E402
import vyxal.lexer  # noqa: E402
import vyxal.main  # noqa: E402
import vyxal.parse  # noqa: E402
import vyxal.structure  # noqa: E402
import vyxal.transpile  # noqa: E402
from vyxal.context import Context  # noqa: E402
from vyxal.LazyList import LazyList  # noqa: E402

warnings.simplefilter("ignore")  # again: sympy installs its own filter for SymPyDeprecationWarning at import
warnings.filterwarnings("ignore", category=Warning)

VYXAL_DIR = os.path.dirname(os.path.abspath(vyxal.main.__file__))
assert os.path.abspath(VYXAL_DIR).startswith(os.path.abspath(REPO)), (
    "vyxal imported from %s, not from %s" % (VYXAL_DIR, REPO)
)

MAIN_VARS = dict(vars(vyxal.main))


# ----------------------------------------------------------------------------
# fuel: deterministic step budget (line events in generated code and in the
# vyxal package).  Implemented with sys.monitoring (PEP 669, CPython 3.12).
# ----------------------------------------------------------------------------
class FuelExhausted(BaseException):
    """Raised inside the code under test when the step budget is used up."""


class Inconclusive(BaseException):
    """Raised by the wall-clock watchdog; never a violation."""


_mon = getattr(sys, "monitoring", None)
_TOOL = 4  # a free sys.monitoring tool id (0 debugger, 1 coverage, 2 profiler, 3 hypothesis, 5 optimizer)
_fuel = {"left": 0, "start": 0, "active": False, "ready": False}
_counted_cache: dict = {}


def _is_counted(filename: str) -> bool:
    r = _counted_cache.get(filename)
    if r is None:
        r = (filename.startswith("<") and not filename.startswith("<frozen")) or filename.startswith(VYXAL_DIR)
        _counted_cache[filename] = r
    return r


def _on_line(code, lineno):
    if _is_counted(code.co_filename):
        if not _fuel["active"]:
            return None
        _fuel["left"] -= 1
        if _fuel["left"] < 0:
            raise FuelExhausted()
        return None
    return _mon.DISABLE


def _fuel_setup():
    if _fuel["ready"]:
        return
    if _mon is None:
        raise RuntimeError("sys.monitoring unavailable (need CPython >= 3.12)")
    try:
        _mon.use_tool_id(_TOOL, "vx-fuel")
    except ValueError:
        pass
    _mon.register_callback(_TOOL, _mon.events.LINE, _on_line)
    _mon.set_events(_TOOL, _mon.events.LINE)
    _fuel["ready"] = True


@contextlib.contextmanager
def fuel(n: int):
    """Run the body with at most n counted line events.  `used()` afterwards."""
    _fuel_setup()
    prev = (_fuel["left"], _fuel["start"], _fuel["active"])
    _fuel["left"] = n
    _fuel["start"] = n
    _fuel["active"] = True
    try:
        yield
    finally:
        _fuel["last_used"] = _fuel["start"] - max(_fuel["left"], -1)
        _fuel["left"], _fuel["start"], _fuel["active"] = prev


def fuel_used() -> int:
    return _fuel.get("last_used", 0)


# ----------------------------------------------------------------------------
# watchdog: keeps the harness alive; never produces a violation
# ----------------------------------------------------------------------------
def _alarm(signum, frame):
    raise Inconclusive("watchdog")


@contextlib.contextmanager
def watchdog(seconds: float):
    old = signal.signal(signal.SIGALRM, _alarm)
    signal.setitimer(signal.ITIMER_REAL, seconds)
    try:
        yield
    finally:
        signal.setitimer(signal.ITIMER_REAL, 0)
        signal.signal(signal.SIGALRM, old)


def limit_memory(gib: float = 6.0):
    try:
        import resource

        lim = int(gib * (1 << 30))
        resource.setrlimit(resource.RLIMIT_AS, (lim, lim))
    except Exception:
        pass


# ----------------------------------------------------------------------------
# execution
# ----------------------------------------------------------------------------
def reset_globals():
    """Reset interpreter-global state at the top of every case."""
    vyxal.context.DEFAULT_CTX.__init__()
    sys.stdin = io.StringIO("")


def fresh_ctx(inputs=(), **attrs) -> Context:
    ctx = Context()
    # the program's inputs, set the way main.execute_vyxal sets them on the pinned tree; a tree that has
    # reorganised the input scopes behind an API is followed as far as the names are recognisable
    if hasattr(ctx, "inputs"):
        ctx.inputs[0][0] = list(inputs)
    elif hasattr(ctx, "set_program_inputs"):
        ctx.set_program_inputs(list(inputs))
    else:
        raise RuntimeError("harness: do not know how to give a Context its program inputs on this tree")
    for k, v in attrs.items():
        setattr(ctx, k, v)
    return ctx


class Result:
    __slots__ = ("stack", "out", "exc", "ctx", "fuel", "ns", "code")

    def __init__(self):
        self.stack = None
        self.out = ""
        self.exc = None
        self.ctx = None
        self.fuel = 0
        self.ns = None
        self.code = None

    @property
    def ok(self):
        return self.exc is None


def transpile(text, dict_compress=True, variables_as_digraphs=False) -> str:
    return vyxal.transpile.transpile(text, dict_compress, variables_as_digraphs)


_code_cache: dict = {}


class BoundedOut(io.StringIO):
    """stdout capture that gives up (Inconclusive: a discard, never a failure) after 8 MB instead of exhausting memory"""
    LIMIT = 8_000_000

    def __init__(self):
        super().__init__()
        self._n = 0

    def write(self, s):
        self._n += len(s)
        if self._n > self.LIMIT:
            raise Inconclusive("output larger than 8 MB")
        return super().write(s)


def exec_py(code_text: str, stack: list, ctx: Context, budget: int = 2_000_000,
            wall: float = 20.0, ns: dict | None = None) -> Result:
    """exec() transpiled text the way main.execute_vyxal does: ONE namespace."""
    res = Result()
    res.stack, res.ctx, res.code = stack, ctx, code_text
    # One shared namespace per process (copying the ~1500-entry dict of vyxal.main for every
    # case costs an mmap/munmap pair each time); it is restored after the run and the names
    # the program created are handed back in res.ns.
    shared = _shared_ns()
    if ns:
        for k, v in ns.items():
            if k not in MAIN_VARS:
                shared[k] = v
    ns = shared
    ns["stack"] = stack
    ns["ctx"] = ctx
    buf = BoundedOut()
    compiled = _code_cache.get(code_text)
    if compiled is None:
        try:
            compiled = compile(code_text, "<vy>", "exec")
        except BaseException as e:  # SyntaxError etc.
            res.exc = e
            return res
        if len(code_text) < 400:
            if len(_code_cache) > 20000:
                _code_cache.clear()
            _code_cache[code_text] = compiled
    try:
        with watchdog(wall), contextlib.redirect_stdout(buf), fuel(budget):
            exec(compiled, ns)
    except (FuelExhausted, Inconclusive) as e:
        res.exc = e
    except SystemExit as e:
        res.exc = e
    except RecursionError as e:
        res.exc = e
    except Exception as e:
        res.exc = e
    res.fuel = fuel_used()
    res.out = buf.getvalue()
    extra = {k: ns[k] for k in ns.keys() - _MAIN_KEYS}
    for k in extra:
        del ns[k]
    for k, v in MAIN_VARS.items():
        if ns.get(k, _MISSING) is not v:
            ns[k] = v
    res.ns = extra
    return res


_SHARED_NS = None
_MAIN_KEYS = frozenset(MAIN_VARS)
_MISSING = object()


def _shared_ns():
    global _SHARED_NS
    if _SHARED_NS is None:
        _SHARED_NS = dict(MAIN_VARS)
    return _SHARED_NS


def run_program(text: str, inputs=(), budget: int = 2_000_000, wall: float = 20.0,
                dict_compress=True, ctx: Context | None = None, stack=None) -> Result:
    """transpile + exec, flagless, with a fresh context whose top-level inputs
    are `inputs` (already Vyxal values).  Mirrors main.execute_vyxal's set-up."""
    reset_globals()
    if ctx is None:
        ctx = fresh_ctx(inputs)
    if stack is None:
        stack = []
    ctx.stacks.append(stack)
    try:
        code = transpile(text, dict_compress)
    except Exception as e:
        res = Result()
        res.exc = e
        res.stack, res.ctx = stack, ctx
        return res
    return exec_py(code, stack, ctx, budget, wall)


def run_main(text: str, flags: str = "", inputs=(), budget: int = 3_000_000,
             wall: float = 20.0, online: bool = False):
    """Call main.execute_vyxal(text, flags+'e', inputs).  Returns (stdout, exc,
    online_record)."""
    reset_globals()
    buf = BoundedOut()
    exc = None
    rec = {1: "", 2: ""} if online else None
    ins = "\n".join(inputs) if online else list(inputs)
    try:
        with watchdog(wall), contextlib.redirect_stdout(buf), fuel(budget):
            vyxal.main.execute_vyxal(text, flags + "e", ins, rec, online)
    except (FuelExhausted, Inconclusive) as e:
        exc = e
    except SystemExit as e:
        exc = e
    except RecursionError as e:
        exc = e
    except Exception as e:
        exc = e
    return buf.getvalue(), exc, rec


# ----------------------------------------------------------------------------
# value normalisation (exact; no tolerance anywhere)
# ----------------------------------------------------------------------------
class TooLong(Exception):
    pass


NORM_NODE_CAP = 300_000
_NORM_NODES = [0]


def norm(v, cap: int = 400, _depth: int = 0):
    """Plain-data denotation of a Vyxal value.  Lists and LazyLists become
    Python lists (lazy ones forced up to `cap` items; longer -> ('prefix', items)),
    exact numbers become Fractions, strings stay strings."""
    if _depth == 0:
        _NORM_NODES[0] = 0
    _NORM_NODES[0] += 1
    if _depth > 40:
        return ("deep",)
    if _NORM_NODES[0] > NORM_NODE_CAP:
        # self-referential / exponentially nested values: cut deterministically (same traversal order on both sides of a comparison)
        return ("toolarge",)
    if isinstance(v, bool):
        return ("bool", v)
    if isinstance(v, int):
        return Fraction(v)
    if isinstance(v, str):
        return v
    if isinstance(v, Fraction):
        return v
    if isinstance(v, sympy.Basic):
        if v.is_Integer:
            return Fraction(int(v))
        if v.is_Rational and v.is_finite:
            return Fraction(int(v.p), int(v.q))
        return ("sym", sympy.srepr(v))
    if isinstance(v, float):
        return ("float", repr(v))
    if isinstance(v, complex):
        return ("complex", repr(v))
    if isinstance(v, (list, tuple)):
        return [norm(x, cap, _depth + 1) for x in v]
    if isinstance(v, LazyList):
        items = []
        it = iter(v)
        for x in it:
            items.append(norm(x, cap, _depth + 1))
            if len(items) > cap or _NORM_NODES[0] > NORM_NODE_CAP:
                return ("prefix", items)
        return items
    if isinstance(v, types.FunctionType):
        return ("fn",)
    if v is None:
        return ("none",)
    return ("other", type(v).__name__, repr(v)[:80])


def jsonable(v):
    """norm()'d values -> JSON-able (Fractions become 'p/q' strings)."""
    if isinstance(v, Fraction):
        return str(v.numerator) if v.denominator == 1 else f"{v.numerator}/{v.denominator}"
    if isinstance(v, (list, tuple)):
        return [jsonable(x) for x in v]
    if isinstance(v, dict):
        return {str(k): jsonable(x) for k, x in v.items()}
    if isinstance(v, (str, int, float, bool)) or v is None:
        return v
    return repr(v)


def exact_number(v):
    """Fraction for int / sympy Integer / sympy Rational, else None (used by the
    exact checks, which must not accept floats or other sympy classes)."""
    if isinstance(v, bool):
        return None
    if isinstance(v, int):
        return Fraction(v)
    if isinstance(v, sympy.Integer):
        return Fraction(int(v))
    if isinstance(v, sympy.Rational) and v.is_finite:
        return Fraction(int(v.p), int(v.q))
    return None


def build_value(spec):
    """Plain-data spec -> Vyxal value.
    spec forms: int | 'str' given as ('s', text) | ('q', p, q) rational |
    ('l', [specs]) eager list | ('z', [specs], forced_k) lazy list with k items
    already pulled."""
    if isinstance(spec, int):
        return spec
    tag = spec[0]
    if tag == "s":
        return spec[1]
    if tag == "q":
        r = sympy.Rational(spec[1], spec[2])
        return int(r) if r.is_Integer else r
    if tag == "l":
        return [build_value(x) for x in spec[1]]
    if tag == "z":
        ll = LazyList(iter([build_value(x) for x in spec[1]]))
        for _ in range(spec[2] if len(spec) > 2 else 0):
            try:
                next(ll)
            except StopIteration:
                break
        return ll
    raise ValueError(spec)


def spec_denotation(spec):
    """What build_value(spec) denotes, as norm() would print it."""
    if isinstance(spec, int):
        return Fraction(spec)
    tag = spec[0]
    if tag == "s":
        return spec[1]
    if tag == "q":
        return Fraction(spec[1], spec[2])
    if tag in ("l", "z"):
        return [spec_denotation(x) for x in spec[1]]
    raise ValueError(spec)
