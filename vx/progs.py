"""My own program AST for Vyxal (independent of vyxal/structure.py), Hypothesis
strategies for it, a renderer to program text, and a model of how the text is
grouped into structures (`model_shape`), written from documents/specs/Parser.md,
Structures.md and Lexer.md.

AST nodes are JSON-able lists:
  ["el", key]                 element / any GENERAL token that is not syntax
  ["num", text]               number literal (digits, '.', '°')
  ["str", payload]            `...`   (payload is the *denoted* text; renderer escapes ` and \\)
  ["two", cc]                 ‛cc
  ["chr", c]                  \\c
  ["cnum", payload]           »...»
  ["cstr", payload]           «...«
  ["cpn", c]                  ⁺c
  ["get", name] ["set", name] ←name →name
  ["cmt", text]               #text<newline>
  ["if", [seq, ...]]          [a|b|...]
  ["for", var|None, seq]      (var|body)
  ["while", seq|None, seq]    {cond|body}
  ["lam", arity|None, seq]    λarity|body;
  ["map", seq] ["flt", seq] ["srt", seq]     ƛ...;  '...;  µ...;
  ["def", name, [params], seq]   @name:p1:p2|body;
  ["call", name]              @name;
  ["list", [seq, ...]]        ⟨a|b⟩
  ["mod", m, [node, ...]]     modifier followed by its operands
  ["brk"] ["rec"]             X x
A `seq` is a list of nodes.
"""
from __future__ import annotations

import string

from hypothesis import strategies as st

from vx.harness import vyxal

CP = vyxal.encoding.codepage
OPEN = "[({@λƛ'µ⟨"
CLOSE = {"if": "]", "for": ")", "while": "}", "lam": ";", "map": ";", "flt": ";", "srt": ";", "def": ";",
         "call": ";", "list": "⟩"}
OPENER = {"if": "[", "for": "(", "while": "{", "lam": "λ", "map": "ƛ", "flt": "'", "srt": "µ", "def": "@",
          "call": "@", "list": "⟨"}
MOD_ARITY = {"v": 1, "⁽": 1, "&": 1, "~": 1, "ß": 1, "ƒ": 1, "ɖ": 1, "₌": 2, "‡": 2, "₍": 2, "≬": 3}
SYNTAX_CHARS = set(OPEN) | set("])};⟩| Xx") | set(MOD_ARITY) | set("`»«‛\\#→←⁺k∆øÞ¨0123456789.°\n")
SYNTAX_SIGNIFICANT = list("|;])}⟩Xxv⁽&~ßƒɖ₌‡₍≬[({λƛ'µ⟨@")  # the syntax-significant characters named by C03
assert len(SYNTAX_SIGNIFICANT) == 28

ELEMENT_KEYS = list(vyxal.elements.elements)
PLAIN_GENERAL = [c for c in CP if c not in SYNTAX_CHARS and c not in vyxal.elements.elements]
LITERAL_KINDS = ["str", "two", "chr", "cnum", "cstr", "cpn", "cmt"]
STRUCT_KINDS = ["if", "for", "while", "lam", "map", "flt", "srt", "def", "call", "list"]


# ---------------------------------------------------------------------------
# rendering
# ---------------------------------------------------------------------------
def _render_str_payload(p: str) -> str:
    return p.replace("\\", "\\\\").replace("`", "\\`")


def render_node(n):
    """-> (text, trailing_closers) where trailing_closers = number of characters
    at the end of text that are droppable closers (C04)."""
    k = n[0]
    if k == "el":
        return n[1], 0
    if k == "num":
        return n[1], 0
    if k == "str":
        return "`" + _render_str_payload(n[1]) + "`", 1
    if k == "two":
        return "‛" + n[1], 0
    if k == "chr":
        return "\\" + n[1], 0
    if k == "cnum":
        return "»" + n[1] + "»", 1
    if k == "cstr":
        return "«" + n[1] + "«", 1
    if k == "cpn":
        return "⁺" + n[1], 0
    if k == "get":
        return "←" + n[1], 0
    if k == "set":
        return "→" + n[1], 0
    if k == "cmt":
        return "#" + n[1] + "\n", 0
    if k == "brk":
        return "X", 0
    if k == "rec":
        return "x", 0
    if k == "mod":
        parts = [render_node(o) for o in n[2]]
        text = n[1] + _join([o for o in n[2]], parts)
        return text, (parts[-1][1] if parts else 0)
    if k in ("if", "list"):
        rs = [render_seq(b) for b in n[1]]
        text = OPENER[k] + "|".join(r[0] for r in rs) + CLOSE[k]
        return text, 1 + rs[-1][1]
    if k == "for":
        body = render_seq(n[2])
        head = (n[1] + "|") if n[1] is not None else ""
        return "(" + head + body[0] + ")", 1 + body[1]
    if k == "while":
        body = render_seq(n[2])
        head = (render_seq(n[1])[0] + "|") if n[1] is not None else ""
        return "{" + head + body[0] + "}", 1 + body[1]
    if k == "lam":
        body = render_seq(n[2])
        head = (str(n[1]) + "|") if n[1] is not None else ""
        return "λ" + head + body[0] + ";", 1 + body[1]
    if k in ("map", "flt", "srt"):
        body = render_seq(n[1])
        return OPENER[k] + body[0] + ";", 1 + body[1]
    if k == "def":
        body = render_seq(n[3])
        head = n[1] + "".join(":" + p for p in n[2])
        return "@" + head + "|" + body[0] + ";", 1 + body[1]
    if k == "call":
        return "@" + n[1] + ";", 1
    raise ValueError(n)


def _needs_space(prev_node, prev_text, next_text):
    if not prev_text or not next_text:
        return False
    k = prev_node[0]
    c = next_text[0]
    if k == "num" and (c in string.digits or c in ".°"):
        return True
    if k in ("get", "set") and (c in string.ascii_letters or c == "_"):
        return True
    return False


def _last_leaf(n):
    """The node whose text ends the rendering of n (for spacing decisions)."""
    if n[0] == "mod" and n[2]:
        return _last_leaf(n[2][-1])
    return n


def _join(nodes, parts):
    out = ""
    prev = None
    for node, (text, _) in zip(nodes, parts):
        if prev is not None and _needs_space(_last_leaf(prev), out, text):
            out += " "
        out += text
        prev = node
    return out


def render_seq(seq):
    parts = [render_node(n) for n in seq]
    text = _join(seq, parts)
    trailing = 0
    if seq:
        last = seq[-1]
        trailing = parts[-1][1]
        if last[0] == "cmt":
            trailing = 0
    return text, trailing


def render(seq) -> str:
    return render_seq(seq)[0]


# ---------------------------------------------------------------------------
# model of the grouping (independent of vyxal.parse)
# ---------------------------------------------------------------------------
_KIND = {"str": "string", "two": "string", "chr": "character", "cnum": "compressed_number",
         "cstr": "compressed_string", "cpn": "codepage_number", "get": "variable_get", "set": "variable_set",
         "num": "number", "el": "general"}


def _letters(s):
    return "".join(c for c in s if c in string.ascii_letters + "_")


def model_shape(seq, literal_values=False):
    """Predicted grouping: a list of shapes.  Literal token values are replaced by
    their kind unless literal_values is True (elements keep their value)."""
    out = []
    i = 0
    seq = [n for n in seq if n[0] != "cmt"]
    while i < len(seq):
        n = seq[i]
        k = n[0]
        if k == "mod":
            # the modifier swallows its operands; they are given explicitly in the AST
            ops = model_shape(n[2], literal_values)
            m = n[1]
            ar = MOD_ARITY[m]
            assert len(n[2]) == ar and len(ops) == ar, "operand must be exactly one structure each"
            if m in "⁽‡≬":
                out.append(("Lambda", 1, ops))
            else:
                out.append((["MonadicModifier", "DyadicModifier", "TriadicModifier"][ar - 1], m, ops))
        else:
            out.append(_shape_node(n, literal_values))
        i += 1
    return out


def _shape_node(n, lv):
    k = n[0]
    if k in _KIND:
        if k == "el":
            return ("tok", "general", n[1])
        if k in ("get", "set"):
            return ("tok", _KIND[k], n[1])
        if k == "num":
            return ("tok", "number", n[1])
        return ("tok", _KIND[k], (_literal_value(n) if lv else None))
    if k == "brk":
        return ("Break",)
    if k == "rec":
        return ("Recurse",)
    if k == "if":
        return ("IfStatement", [model_shape(b, lv) for b in n[1]])
    if k == "list":
        return ("ListLiteral", [model_shape(b, lv) for b in n[1]])
    if k == "for":
        names = [] if n[1] is None else [_letters(n[1])]
        return ("ForLoop", names, model_shape(n[2], lv))
    if k == "while":
        cond = ("tok1",) if n[1] is None else model_shape(n[1], lv)
        return ("WhileLoop", cond, model_shape(n[2], lv))
    if k == "lam":
        return ("Lambda", "default" if n[1] is None else int(n[1]), model_shape(n[2], lv))
    if k == "map":
        return ("LambdaMap", model_shape(n[1], lv))
    if k == "flt":
        return ("LambdaFilter", model_shape(n[1], lv))
    if k == "srt":
        return ("LambdaSort", model_shape(n[1], lv))
    if k == "def":
        return ("FunctionDef", n[1], [p if (p.isdecimal() or p == "*") else "".join(c for c in p if c in string.ascii_letters or c == "_") for p in n[2]],
                model_shape(n[3], lv))
    if k == "call":
        return ("FunctionCall", n[1])
    raise ValueError(n)


def _literal_value(n):
    if n[0] == "str":
        return _render_str_payload(n[1])
    return n[1]


def repo_shape(structs, literal_values=False, parents=False):
    """Shape of what vyxal.parse.parse returned, in the same vocabulary."""
    S = vyxal.structure
    T = vyxal.lexer.TokenType
    lit = {T.STRING, T.CHARACTER, T.COMPRESSED_NUMBER, T.COMPRESSED_STRING, T.CODEPAGE_NUMBER}

    def tok(t):
        if t.name in lit:
            return ("tok", t.name.value, t.value if literal_values else None)
        return ("tok", t.name.value, t.value)

    def seq(xs):
        return [one(x) for x in xs]

    def one(s):
        if isinstance(s, vyxal.lexer.Token):
            return tok(s)
        t = type(s)
        if t is S.GenericStatement:
            return tok(s.branches[0][0])
        if t is S.BreakStatement:
            return ("Break", getattr(s.parent_structure, "__name__", None)) if parents else ("Break",)
        if t is S.RecurseStatement:
            return ("Recurse", getattr(s.parent_structure, "__name__", None)) if parents else ("Recurse",)
        if t is S.IfStatement:
            return ("IfStatement", [seq(b) for b in s.branches])
        if t is S.ListLiteral:
            return ("ListLiteral", [seq(b) for b in s.items])
        if t is S.ForLoop:
            return ("ForLoop", list(s.names), seq(s.body))
        if t is S.WhileLoop:
            c = s.condition
            if len(c) == 1 and isinstance(c[0], vyxal.lexer.Token) and c[0].name == T.NUMBER and c[0].value == "1":
                cond = ("tok1",)
            else:
                cond = seq(c)
            return ("WhileLoop", cond, seq(s.body))
        if t is S.Lambda:
            return ("Lambda", s.arity, seq(s.body))
        if t is S.LambdaMap:
            return ("LambdaMap", seq(s.lam.body))
        if t is S.LambdaFilter:
            return ("LambdaFilter", seq(s.lam.body))
        if t is S.LambdaSort:
            return ("LambdaSort", seq(s.lam.body))
        if t is S.FunctionDef:
            return ("FunctionDef", s.name, list(s.parameters), seq(s.body))
        if t is S.FunctionCall:
            return ("FunctionCall", s.name)
        if t in (S.MonadicModifier, S.DyadicModifier, S.TriadicModifier):
            return (t.__name__, s.modifier, [one(b) for b in s.branches])
        return ("?", t.__name__)

    return seq(structs)


def parse_text(text, variables_as_digraphs=False):
    return vyxal.parse.parse(vyxal.lexer.tokenise(text, variables_as_digraphs))


# ---------------------------------------------------------------------------
# AST utilities
# ---------------------------------------------------------------------------
def children(n):
    """Sub-sequences of a node (lists of nodes)."""
    k = n[0]
    if k in ("if", "list"):
        return list(n[1])
    if k == "for":
        return [n[2]]
    if k == "while":
        return ([n[1]] if n[1] is not None else []) + [n[2]]
    if k == "lam":
        return [n[2]]
    if k in ("map", "flt", "srt"):
        return [n[1]]
    if k == "def":
        return [n[3]]
    if k == "mod":
        return [n[2]]
    return []


def walk(seq, depth=0):
    for n in seq:
        yield n, depth
        for ch in children(n):
            yield from walk(ch, depth + 1)


def ast_depth(seq):
    d = 0
    for n in seq:
        cs = children(n)
        if cs or n[0] in STRUCT_KINDS:
            d = max(d, 1 + max([ast_depth(c) for c in cs] or [0]))
    return d


FNAME_CHARS = string.ascii_letters + "_" + "²¹⁰₀₁₈½¼¾⅛É9+"


def validate(seq, _depth=0):
    """Raises AssertionError/ValueError/... unless seq is a well-formed AST
    (used by replay on shrunk cases)."""
    assert isinstance(seq, list) and _depth < 12
    for n in seq:
        assert isinstance(n, list) and n and isinstance(n[0], str)
        k = n[0]
        if k == "el":
            assert len(n) == 2 and isinstance(n[1], str) and n[1] and all(c in CP for c in n[1])
            assert n[1] in vyxal.elements.elements or (len(n[1]) == 1 and n[1] in PLAIN_GENERAL)
        elif k == "num":
            assert len(n) == 2 and n[1] and all(c in "0123456789.°" for c in n[1])
            toks = vyxal.lexer.tokenise(n[1])
            assert len(toks) == 1, "number text must be one literal"
        elif k == "str":
            assert len(n) == 2 and isinstance(n[1], str)
        elif k == "two":
            assert len(n) == 2 and isinstance(n[1], str) and len(n[1]) == 2
        elif k in ("chr", "cpn"):
            assert len(n) == 2 and isinstance(n[1], str) and len(n[1]) == 1
        elif k == "cnum":
            assert len(n) == 2 and isinstance(n[1], str) and "»" not in n[1]
        elif k == "cstr":
            assert len(n) == 2 and isinstance(n[1], str) and "«" not in n[1]
        elif k in ("get", "set"):
            assert len(n) == 2 and isinstance(n[1], str) and all(c in string.ascii_letters + "_" for c in n[1])
        elif k == "cmt":
            assert len(n) == 2 and isinstance(n[1], str) and "\n" not in n[1]
        elif k in ("brk", "rec"):
            assert len(n) == 1
        elif k in ("if", "list"):
            assert len(n) == 2 and isinstance(n[1], list) and 1 <= len(n[1]) <= 8
            for b in n[1]:
                validate(b, _depth + 1)
        elif k == "for":
            assert len(n) == 3 and (n[1] is None or (isinstance(n[1], str) and n[1] and all(c in string.ascii_letters + "_" for c in n[1])))
            validate(n[2], _depth + 1)
        elif k == "while":
            assert len(n) == 3
            if n[1] is not None:
                validate(n[1], _depth + 1)
            validate(n[2], _depth + 1)
        elif k == "lam":
            assert len(n) == 3 and (n[1] is None or (isinstance(n[1], int) and not isinstance(n[1], bool) and 0 <= n[1] <= 9))
            validate(n[2], _depth + 1)
        elif k in ("map", "flt", "srt"):
            assert len(n) == 2
            validate(n[1], _depth + 1)
        elif k == "def":
            assert len(n) == 4 and isinstance(n[1], str) and n[1] and all(c in FNAME_CHARS for c in n[1]) and any(c in string.ascii_letters for c in n[1])
            assert isinstance(n[2], list)
            for p in n[2]:
                assert isinstance(p, str) and p and (p == "*" or p.isdecimal() or all((c.isalnum() or c == "_") and c in CP for c in p))
            validate(n[3], _depth + 1)
        elif k == "call":
            assert len(n) == 2 and isinstance(n[1], str) and n[1] and all(c in FNAME_CHARS for c in n[1]) and any(c in string.ascii_letters for c in n[1])
        elif k == "mod":
            assert len(n) == 3 and n[1] in MOD_ARITY and isinstance(n[2], list) and len(n[2]) == MOD_ARITY[n[1]]
            for o in n[2]:
                assert isinstance(o, list) and o and o[0] != "cmt"
            validate(n[2], _depth + 1)
        else:
            raise AssertionError("unknown node " + repr(k))
    return True


# ---------------------------------------------------------------------------
# Hypothesis strategies (full grammar)
# ---------------------------------------------------------------------------
NAME = st.text("abcxyzfgXN_", min_size=1, max_size=3).filter(lambda s: any(c.isalpha() for c in s))
VARNAME = st.text("abcxyzvn_XQ", min_size=0, max_size=3)
# function names are sanitised only in the transpiler: also code-page characters that Unicode counts as
# alphanumeric but Python identifiers do not allow, digits, and other one-character elements
FNAME = st.one_of(NAME, st.tuples(NAME, st.text("²¹⁰₀₁₈½¼¾⅛É9+", min_size=1, max_size=2)).map(lambda t: t[0][:2] + t[1]),
                  st.tuples(st.sampled_from("²½₁⅛"), NAME).map(lambda t: t[0] + t[1][:2]))
CPCHAR = st.sampled_from(CP)
HOT = st.sampled_from(SYNTAX_SIGNIFICANT + ["`", "\\", "«", "»", '"', "\n", "#", "‛", "⁺", " ", "→", "k", "0", "."])


BENIGN = st.sampled_from(list("abcdeHW,!123 "))


def payload(max_size=4, exclude="", hot=True):
    ch = (st.one_of(HOT, HOT, CPCHAR) if hot else BENIGN).filter(lambda c: c not in exclude)
    return st.lists(ch, max_size=max_size).map("".join)


def literal_nodes(hot=True):
    one = st.one_of(HOT, CPCHAR) if hot else BENIGN
    return st.one_of(
        payload(5, hot=hot).map(lambda p: ["str", p]),
        st.tuples(one, one).map(lambda t: ["two", t[0] + t[1]]),
        one.map(lambda c: ["chr", c]),
        payload(4, "»", hot).map(lambda p: ["cnum", p]),
        payload(4, "«", hot).map(lambda p: ["cstr", p]),
        one.map(lambda c: ["cpn", c]),
    )


NUM_FORMS = ["0", "1", "2", "7", "10", "12", "123", "1000", "1093", "99999", ".", "1.", ".5", "0.5", "3.25", "1°2", "°", "°3",
             "2°", "1.5°.5", ".°."]


def leaf_nodes(elements=None, hot=True):
    els = elements or ELEMENT_KEYS
    return st.one_of(
        st.sampled_from(els).map(lambda k: ["el", k]),
        st.sampled_from(els).map(lambda k: ["el", k]),
        st.sampled_from(NUM_FORMS).map(lambda t: ["num", t]),
        literal_nodes(hot),
        VARNAME.map(lambda v: ["get", v]),
        VARNAME.map(lambda v: ["set", v]),
        st.just(["brk"]), st.just(["rec"]),
        st.sampled_from(PLAIN_GENERAL or ["+"]).map(lambda c: ["el", c]),
    )


def _structures(sub_seq, sub_node):
    """Structure nodes over the given sub-strategies."""
    branch = sub_seq
    PARAM = st.one_of(st.integers(0, 3).map(str), st.sampled_from(["00", "01", "007", "10", "2a", "a1"]), st.text("abnxy_", min_size=1, max_size=2), st.text("abn_²₁½É", min_size=1, max_size=2))
    return st.one_of(
        st.lists(branch, min_size=1, max_size=5).map(lambda bs: ["if", bs]),
        st.tuples(st.one_of(st.none(), NAME), branch).map(lambda t: ["for", t[0], t[1]]),
        st.tuples(st.one_of(st.none(), branch), branch).map(lambda t: ["while", t[0], t[1]]),
        st.tuples(st.one_of(st.none(), st.integers(0, 4)), branch).map(lambda t: ["lam", t[0], t[1]]),
        branch.map(lambda b: ["map", b]),
        branch.map(lambda b: ["flt", b]),
        branch.map(lambda b: ["srt", b]),
        st.tuples(FNAME, st.lists(PARAM, max_size=3), branch).map(lambda t: ["def", t[0], t[1], t[2]]),
        FNAME.map(lambda nm: ["call", nm]),
        st.lists(branch, min_size=1, max_size=4).map(lambda bs: ["list", bs]),
        st.sampled_from(list(MOD_ARITY)).flatmap(
            lambda m: st.lists(sub_node, min_size=MOD_ARITY[m], max_size=MOD_ARITY[m]).map(lambda ops: ["mod", m, ops])),
    )


def program_strategy(max_depth=4, elements=None, comments=True, max_len=4, hot=True):
    """Sequences of nodes, structures nested up to max_depth."""
    leaf = leaf_nodes(elements, hot)
    node = leaf
    cmt = payload(5, "\n", hot).map(lambda p: ["cmt", p])
    for _ in range(max_depth):
        inner_node = node
        items = st.one_of(inner_node, inner_node, inner_node, cmt) if comments else inner_node
        inner_seq = st.lists(items, max_size=max_len)
        node = st.one_of(leaf, leaf, _structures(inner_seq, inner_node), _structures(inner_seq, inner_node))
    items = st.one_of(node, node, node, cmt) if comments else node
    return st.lists(items, min_size=1, max_size=max_len + 1)


# ---------------------------------------------------------------------------
# core grammar (C01 / C12 / C19): total-ish integer / list elements
# ---------------------------------------------------------------------------
CORE_ELEMENTS = ["+", "-", "*", "N", "›", "‹", "d", "=", "<", ">", ":", "$", "_", "D", "∇", "W", "!", "^", "w", '"', "J", "L",
                 "h", "t", "∑", "f", "Ṙ", "n", "?", "ɾ", "½", "¬", "ḃ", "∷", "Ḣ", "Ṫ", "U", "s", "G", "g", "p", "ė"]
CORE_PRINT = [",", "…", "₴"]


def core_strategy(max_depth=3, breaks=True, printing=True, functions=True, max_len=4):
    ints = st.integers(0, 12).map(lambda n: ["num", str(n)])
    small = st.integers(0, 3).map(lambda n: ["num", str(n)])
    el = st.sampled_from(CORE_ELEMENTS).map(lambda k: ["el", k])
    leaf_opts = [ints, ints, el, el, el, el,
                 st.sampled_from(["a", "b", ""]).map(lambda v: ["get", v]), st.sampled_from(["a", "b", ""]).map(lambda v: ["set", v])]
    if printing:
        leaf_opts.append(st.sampled_from(CORE_PRINT).map(lambda k: ["el", k]))
    if breaks:
        leaf_opts += [st.sampled_from([["brk"], ["brk"], ["rec"]])]
    leaf = st.one_of(*leaf_opts)
    node = leaf
    for _ in range(max_depth):
        inner = node
        seq = st.lists(inner, max_size=max_len)
        seq1 = st.lists(inner, min_size=1, max_size=max_len)

        def counted(body_st):
            return body_st

        structs = [
            st.lists(seq, min_size=1, max_size=5).map(lambda bs: ["if", bs]),
            st.tuples(st.one_of(st.none(), st.sampled_from(["a", "i"])), seq).map(lambda t: ["for", t[0], t[1]]),
            # counter-form while: the condition duplicates the counter, the body ends by decrementing it
            seq.map(lambda b: ["while", [["el", ":"]], b + [["el", "‹"]]]),
            st.tuples(seq1, seq).map(lambda t: ["while", t[0], t[1]]),
            st.tuples(st.one_of(st.none(), st.integers(0, 3)), seq).map(lambda t: ["lam", t[0], t[1]]),
            seq.map(lambda b: ["map", b]), seq.map(lambda b: ["flt", b]), seq.map(lambda b: ["srt", b]),
            st.lists(seq, min_size=1, max_size=3).map(lambda bs: ["list", bs]),
            st.sampled_from(list(MOD_ARITY)).flatmap(
                lambda m: st.lists(inner, min_size=MOD_ARITY[m], max_size=MOD_ARITY[m]).map(lambda ops: ["mod", m, ops])),
        ]
        node = st.one_of(leaf, leaf, leaf, *structs)
    stmt = node
    # sequences that make structures likely to run: a small literal before loops / calls after lambdas
    def glue(seq_):
        out = []
        for n in seq_:
            if n[0] in ("for", "while") :
                out.append(["num", "3"])
            if n[0] in ("map", "flt", "srt"):
                out.append(["num", "3"])
            out.append(n)
            if n[0] == "lam":
                out.append(["el", "†"])
        return out

    top = st.lists(stmt, min_size=1, max_size=max_len + 2).map(glue)
    if functions:
        fdef = st.tuples(st.sampled_from(["f", "g"]), st.lists(st.sampled_from(["1", "2", "a"]), max_size=2),
                         st.lists(node, max_size=max_len)).map(lambda t: ["def", t[0], t[1], t[2]])
        call = st.sampled_from(["f", "g"]).map(lambda nm: ["call", nm])

        def with_funcs(t):
            defs, body, calls = t
            out = list(defs)
            for i, n in enumerate(body):
                out.append(n)
                if calls and i % 2 == 0 and defs:
                    out.append(["call", defs[0][1]])
            return out

        top = st.tuples(st.lists(fdef, max_size=2), top, st.booleans()).map(with_funcs)
    return top
