"""C01 - structures execute as specified (transpiled program == reference semantics).

Differential testing of the real pipeline against vx/refinterp.py, an independent
tree-walking interpreter over my own AST, on two channels:
  stack    exec(transpile(text)) in one namespace (range flags / H applied by hand):
           the final stack must equal the reference's stack
  output   main.execute_vyxal(text, flags + 'e', inputs) with stdout captured: the
           printed text (including the implicit output rules of the flags
           '', O, o, j, s, W, H, M, m) must equal the reference's text
The reference decides termination and applicability: if it raises Unmodelled /
RefError / StepLimit the case is discarded (counted).  If it finishes, the
implementation must finish within 150x the reference's steps (fuel) and agree.
"""
from __future__ import annotations

from hypothesis import strategies as st

from vx import campaign, harness, progs, refinterp
from vx.harness import norm

RULE = ("Hypothesis-generated programs from the core structure grammar (position-aware: side effects only where the "
        "implementation evaluates eagerly) x inputs x flag; non-trivial = a structure nested in a structure or modifier "
        "and the reference executed the program to the end; distinct by (program, inputs, flag)")
ASSUMPTIONS = [
    "vx/refinterp.py is the specification: where documents are silent it encodes the semantics listed in DESIGN.md appendix A",
    "bodies of lambdas and modifier operands are side-effect free in generated programs (the implementation may evaluate them lazily)",
    "break / recurse, strings, rationals, named and variadic parameters are outside this grammar",
]

FLAGS = ["", "O", "o", "j", "s", "W", "H", "M", "m"]
PURE_ELS = ["+", "-", "*", "N", "›", "‹", "d", "=", "<", ">", ":", "$", "_", "D", "∇", "W", "!", "^", "w", '"', "J", "L", "h", "t", "∑",
            "f", "Ṙ", "n", "ɾ", "¬", "ḃ", "∷", "Ḣ", "Ṫ", "U", "s", "G", "g", "p", "ė"]
MODS = ["v", "~", "ß", "ƒ", "ɖ", "₌", "₍", "⁽", "‡", "≬"]


def N(v):
    from fractions import Fraction

    if isinstance(v, list):
        return [N(x) for x in v]
    if isinstance(v, refinterp.Fn):
        return ("fn",)
    return Fraction(v)


def _strategies(max_depth):
    ints = st.integers(0, 12).map(lambda n: ["num", str(n)])
    small = st.integers(0, 4).map(lambda n: ["num", str(n)])
    pel = st.sampled_from(PURE_ELS).map(lambda k: ["el", k])
    pure = st.one_of(ints, small, pel, pel, pel)
    for _ in range(max_depth):
        inner = pure
        seq = st.lists(inner, max_size=4)
        seq1 = st.lists(inner, min_size=1, max_size=4)
        operand = st.one_of(pel, pel, inner)
        pure = st.one_of(
            ints, pel, pel, pel,
            st.lists(seq, min_size=1, max_size=6).map(lambda bs: ["if", bs]),
            st.tuples(small, seq).map(lambda t: ["SEQ", [t[0], ["for", None, t[1]]]]),
            st.tuples(small, seq).map(lambda t: ["SEQ", [t[0], ["while", [["el", ":"]], t[1] + [["el", "‹"]]], ["el", "_"]]]),
            st.tuples(st.one_of(st.none(), st.integers(0, 3)), seq1, st.booleans()).map(
                lambda t: ["SEQ", [["lam", t[0], t[1]]] + ([["el", "†"]] if t[2] else [])]),
            st.tuples(st.sampled_from(["map", "flt", "srt"]), seq1).map(lambda t: [t[0], t[1]]),
            st.tuples(st.one_of(st.none(), st.integers(0, 3)), seq1, st.sampled_from(["M", "F", "ṡ"])).map(
                lambda t: ["SEQ", [["lam", t[0], t[1]], ["el", t[2]]]]),
            st.lists(seq, min_size=1, max_size=3).map(lambda bs: ["list", bs]),
            st.sampled_from(MODS).flatmap(lambda m: st.lists(operand, min_size=progs.MOD_ARITY[m], max_size=progs.MOD_ARITY[m]).map(
                lambda ops: ["mod", m, ops])),
        )
    side = st.sampled_from([",", "…", "₴", "?"]).map(lambda k: ["el", k])
    var = st.one_of(st.sampled_from(["a", "b", ""]).map(lambda v: ["set", v]), st.sampled_from(["a", "b", ""]).map(lambda v: ["get", v]))
    fnlevel = st.one_of(pure, pure, side)               # inside list items / named functions
    top = st.one_of(pure, pure, side, var, st.sampled_from(["f", "g"]).map(lambda n: ["call", n]))
    for _ in range(2):
        inner_top = top
        tseq = st.lists(inner_top, max_size=4)
        top = st.one_of(
            inner_top, inner_top, inner_top,
            st.lists(tseq, min_size=1, max_size=6).map(lambda bs: ["if", bs]),
            st.tuples(small, st.one_of(st.none(), st.sampled_from(["a", "i"])), tseq).map(lambda t: ["SEQ", [t[0], ["for", t[1], t[2]]]]),
            st.tuples(small, tseq).map(lambda t: ["SEQ", [t[0], ["while", [["el", ":"]], t[1] + [["el", "‹"]]], ["el", "_"]]]),
            st.lists(st.lists(fnlevel, max_size=3), min_size=1, max_size=3).map(lambda bs: ["list", bs]),
        )
    fdef = st.tuples(st.sampled_from(["f", "g"]), st.lists(st.sampled_from(["1", "2"]), max_size=2), st.lists(fnlevel, max_size=4)).map(
        lambda t: ["def", t[0], t[1], t[2]])
    return st.tuples(st.lists(fdef, max_size=2), st.lists(top, min_size=1, max_size=6)).map(lambda t: t[0] + t[1])


def flatten_seq(seq):
    """Expand my ['SEQ', [...]] helper nodes (a structure with the glue that makes it run)."""
    out = []
    for n in seq:
        if n[0] == "SEQ":
            out += flatten_seq(n[1])
            continue
        k = n[0]
        if k in ("if", "list"):
            out.append([k, [flatten_seq(b) for b in n[1]]])
        elif k == "for":
            out.append(["for", n[1], flatten_seq(n[2])])
        elif k == "while":
            out.append(["while", None if n[1] is None else flatten_seq(n[1]), flatten_seq(n[2])])
        elif k == "lam":
            out.append(["lam", n[1], flatten_seq(n[2])])
        elif k in ("map", "flt", "srt"):
            out.append([k, flatten_seq(n[1])])
        elif k == "def":
            out.append(["def", n[1], n[2], flatten_seq(n[3])])
        elif k == "mod":
            ops = []
            for o in n[2]:
                fo = flatten_seq([o])
                # an operand must be exactly one structure: wrap multi-node glue in a lambda
                ops.append(fo[0] if len(fo) == 1 else ["lam", None, fo])
            out.append(["mod", n[1], ops])
        else:
            out.append(n)
    return out


def repair(seq):
    """Top-level repair pass: a call / variable read that would precede its definition is replaced by a
    literal (the generator cannot know the order it will end up in)."""
    defined_f, defined_v = set(), set()

    def fix(nodes, top):
        out = []
        for n in nodes:
            k = n[0]
            if k == "def" and top:
                defined_f.add(n[1])
                out.append(n)
            elif k == "call" and n[1] not in defined_f:
                out.append(["num", "7"])
            elif k == "get" and n[1] != "" and n[1] not in defined_v:
                out.append(["num", "8"])
            elif k == "set":
                if n[1] != "":
                    defined_v.add(n[1])
                out.append(n)
            elif k == "if":
                # a variable set in only one branch is not reliably defined afterwards: keep it simple and
                # let every branch see/define the same set
                out.append(["if", [fix(b, False) for b in n[1]]])
            elif k == "for":
                if n[1] is not None:
                    defined_v.add(n[1])
                out.append(["for", n[1], fix(n[2], False)])
            elif k == "while":
                out.append(["while", n[1], fix(n[2], False)])
            else:
                out.append(n)
        return out

    return fix(seq, True)


PROGRAM = _strategies(2).map(flatten_seq).map(repair)
INPUT = st.one_of(st.integers(0, 9), st.integers(0, 9), st.lists(st.integers(0, 5), max_size=3))
INPUTS = st.lists(INPUT, max_size=3)


def run_reference(ast, inputs, flag):
    it = refinterp.Interp(inputs=[list(x) if isinstance(x, list) else x for x in inputs], flags=flag, max_steps=6000)
    stack = it.run_program(ast)
    final = [N(x) for x in stack]
    text = it.implicit_output(stack)
    return final, text, it.steps


def check(ast, inputs, flag):
    """-> ('discard', why) | None | (sig, msg)"""
    try:
        want_stack, want_text, steps = run_reference(ast, inputs, flag)
    except refinterp.Unmodelled as e:
        return ("discard", "unmodelled: " + str(e).split(" ")[0])
    except refinterp.RefError:
        return ("discard", "reference-error")
    except refinterp.StepLimit:
        return ("discard", "reference-step-limit")
    except (RecursionError, MemoryError):
        return ("discard", "reference-recursion")
    text = progs.render(ast)
    budget = 200_000 + 3000 * steps
    desc = f"program {text!r} inputs={inputs!r} flag={flag!r}"
    # channel 1: stack
    harness.reset_globals()
    ctx = harness.fresh_ctx([list(x) if isinstance(x, list) else x for x in inputs])
    if "M" in flag:
        ctx.range_start = 0
    if "m" in flag:
        ctx.range_end = 0
    stack = [100] if "H" in flag else []
    ctx.stacks.append(stack)
    try:
        code = harness.transpile(text)
    except Exception as e:  # noqa: BLE001
        return (f"C01:transpile-raises:{type(e).__name__}", f"{desc}: transpile raised {e!r}")
    r = harness.exec_py(code, stack, ctx, budget=budget, wall=30)
    kinds = _kinds(ast)
    if r.exc is not None:
        if isinstance(r.exc, (harness.Inconclusive, RecursionError, MemoryError)):
            return ("discard", "watchdog" if isinstance(r.exc, harness.Inconclusive) else "python-resource-limit")
        what = "did not finish within the step budget" if isinstance(r.exc, harness.FuelExhausted) else f"raised {type(r.exc).__name__}: {r.exc}"
        return (f"C01:stack:{'fuel' if isinstance(r.exc, harness.FuelExhausted) else 'raises:' + type(r.exc).__name__}:{kinds}",
                f"{desc}: the reference finishes with stack {harness.jsonable(want_stack)!r} but the transpiled program {what}")
    try:
        with harness.watchdog(20), harness.fuel(budget):
            got_stack = [norm(x, cap=2000) for x in stack]
    except (harness.FuelExhausted, harness.Inconclusive, RecursionError):
        # nested lazy results can be exponentially expensive to force although the eager reference is quick:
        # a resource limit, not a semantic difference (an endless list shows up as a value difference instead)
        return ("discard", "forcing-the-final-stack-exceeded-the-budget")
    except Exception as e:  # noqa: BLE001
        return (f"C01:stack:raises-while-forcing:{type(e).__name__}:{kinds}", f"{desc}: forcing the final stack raised {e!r}; the reference gives {harness.jsonable(want_stack)!r}")
    if got_stack != want_stack:
        return (f"C01:stack:value:{kinds}", f"{desc}: final stack {harness.jsonable(got_stack)!r}, the reference semantics gives {harness.jsonable(want_stack)!r}")
    # channel 2: printed text through main.execute_vyxal
    out, exc, _ = harness.run_main(text, flag, [repr(x) for x in inputs], budget=budget * 2, wall=30)
    if exc is not None:
        if isinstance(exc, (harness.Inconclusive, RecursionError, MemoryError)):
            return ("discard", "watchdog" if isinstance(exc, harness.Inconclusive) else "python-resource-limit")
        return (f"C01:output:raises:{type(exc).__name__}:{kinds}", f"{desc}: execute_vyxal raised {type(exc).__name__}: {exc}; expected output {want_text!r}")
    if out != want_text:
        return (f"C01:output:text:{kinds}", f"{desc}: printed {out!r}, the reference semantics prints {want_text!r}")
    return None


def _kinds(ast):
    ks = sorted({(n[0] if n[0] != "mod" else "mod" + n[1]) for n, _ in progs.walk(ast)
                 if n[0] in ("if", "for", "while", "lam", "map", "flt", "srt", "def", "call", "list", "mod")})
    return "+".join(ks) or "flat"


def _nontrivial(ast):
    return any(d >= 1 and n[0] in ("if", "for", "while", "lam", "map", "flt", "srt", "list", "mod") for n, d in progs.walk(ast))


def _do(rec, ast, inputs, flag, cls):
    r = check(ast, inputs, flag)
    if r and r[0] == "discard":
        rec.discard(r[1])
        return
    rec.case(key=(progs.render(ast), repr(inputs), flag), nontrivial=_nontrivial(ast),
             cls=(cls if isinstance(cls, list) else [cls]) + [f"flag '{flag}'", f"depth{progs.ast_depth(ast)}"])
    if r:
        rec.fail(r[0], {"ast": ast, "inputs": inputs, "flag": flag}, r[1])


def _shard_hyp(rec, arg):
    seed, n = arg

    counter = [seed]

    def t(p, ins):
        counter[0] += 1
        flag = FLAGS[counter[0] % len(FLAGS)] if counter[0] % 3 else ""
        _do(rec, p, ins, flag, "generated")
        if len(rec.samples) < 6 and progs.ast_depth(p) >= 2:
            rec.sample({"program": progs.render(p), "inputs": ins, "flag": flag})

    campaign.hyp_run(t, {"p": PROGRAM, "ins": INPUTS}, seed, n)


BODY_ALPHABET = ["-", "_", "$", "+", "N", ":", "‹", "n", "<", "!", "W"]
CALL_FORMS = {
    "dagger2": lambda body: [["num", "3"], ["num", "10"], ["lam", 2, body], ["el", "†"]],
    "dagger3": lambda body: [["num", "1"], ["num", "2"], ["num", "7"], ["lam", 3, body], ["el", "†"]],
    "dagger1-under": lambda body: [["num", "9"], ["lam", None, body], ["el", "†"]],
    "reduce": lambda body: [["list", [[["num", "5"]], [["num", "7"]], [["num", "2"]]]], ["mod", "ƒ", [["lam", 2, body]]]],
    "scan": lambda body: [["list", [[["num", "5"]], [["num", "7"]], [["num", "2"]]]], ["mod", "ɖ", [["lam", 2, body]]]],
    "v-dyad": lambda body: [["list", [[["num", "5"]], [["num", "7"]]]], ["num", "3"], ["mod", "v", [["lam", 2, body]]]],
    "both": lambda body: [["num", "4"], ["num", "9"], ["mod", "₌", [["lam", 2, body], ["el", "-"]]]],
    "map": lambda body: [["num", "3"], ["map", body]],
    "fork-pair": lambda body: [["num", "4"], ["num", "9"], ["mod", "₍", [["el", "+"], ["lam", 2, body]]]],
    "list-items": lambda body: [["num", "4"], ["num", "9"], ["list", [body, body + [["el", "›"]]]]],
    "function-2": lambda body: [["def", "f", ["2"], body], ["num", "4"], ["num", "9"], ["call", "f"]],
    "function-1-1": lambda body: [["def", "f", ["1", "1"], body], ["num", "4"], ["num", "9"], ["call", "f"]],
    "function-2-a": lambda body: [["def", "f", ["2", "a"], body + [["get", "a"]]], ["num", "4"], ["num", "9"], ["num", "6"], ["call", "f"]],
    "function-a-2": lambda body: [["def", "f", ["a", "2"], body + [["get", "a"]]], ["num", "4"], ["num", "9"], ["num", "6"], ["call", "f"]],
    "function-1-a-1": lambda body: [["def", "f", ["1", "a", "1"], [["get", "a"]] + body], ["num", "4"], ["num", "9"], ["num", "6"], ["call", "f"]],
    "function-1-a-short": lambda body: [["def", "f", ["1", "a"], body + [["get", "a"]]], ["num", "4"], ["call", "f"]],
    "for-body": lambda body: [["num", "6"], ["num", "2"], ["for", None, body]],
    "if-5-branches": lambda body: [["num", "6"], ["num", "0"], ["if", [[["num", "1"]], [["num", "0"]], [["num", "2"]], [["num", "3"]], body]]],
    "if-6-branches": lambda body: [["num", "6"], ["num", "0"], ["if", [[["num", "1"]], [["num", "0"]], [["num", "2"]], [["num", "0"]], [["num", "5"]], body]]],
    "if-7-branches": lambda body: [["num", "6"], ["num", "0"], ["if", [[["num", "1"]], [["num", "0"]], [["num", "2"]], [["num", "0"]], [["num", "5"]], [["el", ":"]], body]]],
    "if-else": lambda body: [["num", "6"], ["num", "0"], ["if", [[["num", "1"]], body]]],
}


def _n(v):
    return ["num", str(v)]


FLAG_PROGRAMS = {
    "list": [["list", [[_n(1)], [_n(2)], [_n(3)]]]], "number": [_n(12)], "range": [_n(3), ["el", "ɾ"]], "nested": [["list", [[["list", [[_n(1)], [_n(2)]]]], [_n(3)]]]],
    "three-values": [_n(1), _n(2), _n(3)], "empty": [], "printed": [_n(5), ["el", ","]], "print-keep": [["list", [[_n(1)], [_n(2)]]], ["el", "…"]],
    "map": [_n(3), ["map", [["el", "d"]]]], "for-range": [_n(3), ["for", None, [["el", "n"]]]], "map-range": [_n(2), ["map", [["el", "ɾ"]]]],
    "filter-range": [_n(4), ["flt", [["el", "∷"]]]], "vectorised": [_n(3), ["mod", "v", [["el", "ɾ"]]]], "sum-range": [_n(4), ["el", "ɾ"], ["el", "∑"]],
    "no-newline": [_n(7), ["el", "₴"], _n(8)], "input-top": [["el", "?"]], "two-lists": [["list", [[_n(1)]]], ["list", [[_n(2)], [_n(0)]]]],
    # the context variable n inside a while CONDITION is the enclosing one (loop item, lambda argument, 0 at top level), every time it is evaluated
    "while-cond-n-in-for": [_n(3), ["for", None, [_n(0), ["while", [["el", ":"], ["el", "n"], ["el", "<"]], [["el", "›"]]]]]],
    "while-cond-n-in-lambda": [_n(4), ["lam", None, [_n(0), ["while", [["el", ":"], ["el", "n"], ["el", "<"]], [["el", "›"]]]]], ["el", "†"]],
    "while-cond-n-top": [_n(0), ["while", [["el", ":"], ["el", "n"], _n(3), ["el", "+"], ["el", "<"]], [["el", "›"]]]],
    "while-body-n": [_n(2), ["while", [["el", ":"]], [["el", "n"], ["el", ","], ["el", "‹"]]]],
    # a sort / map / filter lambda gives a new list: the argument seen through another reference is unchanged
    "sort-lambda-argument-via-variable": [["list", [[_n(3)], [_n(1)], [_n(2)]]], ["set", "x"], ["get", "x"], ["srt", [["el", "N"]]], ["el", "_"], ["get", "x"]],
    "sort-lambda-argument-via-dup": [["list", [[_n(3)], [_n(1)], [_n(2)]]], ["el", ":"], ["srt", [["el", "N"]]], ["el", "_"]],
    "sort-lambda-argument-via-loop-item": [["list", [[["list", [[_n(3)], [_n(1)], [_n(2)]]]]]], ["for", None, [["el", "n"], ["srt", []], ["el", "_"], ["el", "n"]]]],
    "map-lambda-argument-via-variable": [["list", [[_n(3)], [_n(1)]]], ["set", "x"], ["get", "x"], ["map", [["el", "d"]]], ["el", "_"], ["get", "x"]],
    "filter-lambda-argument-via-dup": [["list", [[_n(3)], [_n(0)], [_n(2)]]], ["el", ":"], ["flt", []], ["el", "_"]],
    # a lazy map / filter result is TESTED (one item forced) and later printed: the printed text is that of the whole list
    "lazy-result-tested-by-if-then-printed": [["list", [[_n(1)], [_n(2)], [_n(3)]]], ["map", [_n(1), ["el", "+"]]], ["set", "x"], ["get", "x"],
                                              ["if", [[_n(1)], [_n(2)]]], ["el", "_"], ["get", "x"]],
    "lazy-result-tested-in-loop-then-printed": [["list", [[_n(1)], [_n(2)], [_n(3)]]], ["map", [["el", "d"]]], ["set", "x"], _n(2),
                                                ["for", None, [["get", "x"], ["if", [[["get", "x"], ["el", ","]]]]]]],
    "lazy-filter-tested-by-while-then-printed": [["list", [[_n(1)], [_n(2)], [_n(3)], [_n(4)]]], ["flt", [["el", "∷"]]], ["set", "x"], _n(1),
                                                 ["while", [["get", "x"]], [["brk"]]], ["el", "_"], ["get", "x"]],
    "while-cond-n-in-map": [_n(3), ["map", [_n(0), ["while", [["el", ":"], ["el", "n"], ["el", "<"]], [["el", "›"]]]]]],
}


def _shard_flags(rec, arg):
    shard, nshards = arg
    i = 0
    for name, prog in FLAG_PROGRAMS.items():
        for flag in FLAGS:
            for ins in ([], [7], [[4, 5], 2]):
                i += 1
                if i % nshards != shard:
                    continue
                _do(rec, prog, ins, flag, ["flag-matrix", f"program {name}"])


# ---- deferred printing: a map / filter body that prints, forced only by the output flags ------------
DEFER_SOURCES = [[["list", [[_n(1)], [_n(2)], [_n(3)]]]], [_n(3)], [["list", [[_n(4)], [_n(0)]]]], [_n(2), ["el", "ɾ"]]]
DEFER_BODIES = [[["el", ":"], ["el", ","], ["el", "d"]], [["el", "…"]], [["el", ":"], ["el", "₴"]], [["el", "d"], ["el", "…"], ["el", "∷"]],
                [["el", ":"], ["el", ","], ["el", ":"], ["el", ","]]]


def check_deferred(src, kind, body, flag, ins):
    """Nothing is printed by the structure before the end (an earlier statement may have printed); the lazy result is first forced by the output flag.
    The text must be what the eager reading of the structure semantics prints (the body's prints,
    then no implicit output because something was printed), and it must not depend on whether
    the list was forced just before the end."""
    ast = src + [[kind, body]]
    try:
        it = refinterp.Interp(inputs=ins, flags=flag, max_steps=6000, effects_in_lambdas=True)
        st_ = it.run_program(ast)
        want = it.implicit_output(st_)
    except (refinterp.Unmodelled, refinterp.RefError, refinterp.StepLimit):
        return ("discard", "reference")
    text = progs.render(ast)
    out1, exc1, _ = harness.run_main(text, flag, [repr(x) for x in ins], budget=2_000_000)
    out2, exc2, _ = harness.run_main(text + ":L_", flag, [repr(x) for x in ins], budget=2_000_000)
    if exc1 is not None or exc2 is not None:
        return ("discard", "raises")
    desc = f"program {text!r} flag={flag!r} inputs={ins!r}"
    if out1 != want:
        return (f"C01:deferred-print:{kind}:flag-{flag}", f"{desc}: printed {out1!r}; the structure semantics prints {want!r} "
                f"(the body's output, then no implicit output because something was printed)")
    if out1 != out2:
        return (f"C01:deferred-print-depends-on-forcing:{kind}:flag-{flag}", f"{desc}: printed {out1!r}, but {out2!r} when the list is forced just before the end (:L_)")
    return None


DEFER_PREFIXES = [[], [_n(5), ["el", ","]], [_n(7), ["el", "₴"]]]


def _shard_deferred(rec, arg):
    shard, nshards = arg
    i = 0
    for src in [pre + s_ for pre in DEFER_PREFIXES for s_ in DEFER_SOURCES]:
        for kind in ("map", "flt"):
            for body in DEFER_BODIES:
                for flag in ("j", "s", "W", "jo", "so"):
                    i += 1
                    if i % nshards != shard:
                        continue
                    r = check_deferred(src, kind, body, flag, [])
                    if r and r[0] == "discard":
                        rec.discard("deferred-" + r[1])
                        continue
                    rec.case(key=(progs.render(src + [[kind, body]]), flag), nontrivial=True, cls=["deferred-printing", f"flag '{flag}'"])
                    if r:
                        rec.fail(r[0], {"deferred": {"src": src, "kind": kind, "body": body, "flag": flag}}, r[1])


def _shard_calls(rec, arg):
    import itertools

    shard, nshards, maxlen = arg
    i = 0
    for L in range(1, maxlen + 1):
        for els in itertools.product(BODY_ALPHABET, repeat=L):
            body = [["el", e] for e in els]
            for name, form in CALL_FORMS.items():
                i += 1
                if i % nshards != shard:
                    continue
                rot = [([5, 8], "W"), ([3, [1, 2]], "j"), ([], "s"), ([4], "o"), ([], "O"), ([2], "H"), ([], "M"), ([1], "m")]
                for ins, flag in (([], ""), rot[i % len(rot)]):
                    _do(rec, form(body), ins, flag, ["exhaustive-call-forms", f"form {name}"])
    if shard == 0:
        rec.sample({"program": progs.render(CALL_FORMS["dagger2"]([["el", "_"], ["el", "_"], ["el", "-"]])), "inputs": [], "flag": ""})


def run(rec, tier, seed):
    quick = tier == "quick"
    ns = campaign.NCPU
    maxlen = 2 if quick else 3
    campaign.parallel(rec, _shard_calls, [(s, ns * 2, maxlen) for s in range(ns * 2)])
    rec.exhaustive.append(f"all bodies of length<={maxlen} over {len(BODY_ALPHABET)} stack/arithmetic elements in {len(CALL_FORMS)} call forms x 2 input/flag settings")
    campaign.parallel(rec, _shard_flags, [(s, ns) for s in range(ns)])
    rec.exhaustive.append(f"flag matrix: {len(FLAG_PROGRAMS)} programs x {len(FLAGS)} flags x 3 input lists")
    campaign.parallel(rec, _shard_deferred, [(s, ns) for s in range(ns)])
    n = 120 if quick else 10000
    campaign.parallel(rec, _shard_hyp, [(seed * 1000 + i, n) for i in range(ns)])


def replay(case):
    if "deferred" in case:
        d = case["deferred"]
        if d.get("kind") not in ("map", "flt") or d.get("flag") not in ("j", "s", "W", "jo", "so"):
            return None
        progs.validate(d["src"] + [[d["kind"], d["body"]]])
        r = check_deferred(d["src"], d["kind"], d["body"], d["flag"], [])
        return None if (r and r[0] == "discard") else r
    ast = case["ast"]
    progs.validate(ast)
    ins = case.get("inputs", [])
    for x in ins:
        if not (isinstance(x, int) and not isinstance(x, bool)) and not (isinstance(x, list) and all(isinstance(y, int) and not isinstance(y, bool) for y in x)):
            return None
    if case.get("flag") not in FLAGS:
        return None
    r = check(ast, ins, case["flag"])
    if r and r[0] == "discard":
        return None
    return r
