"""C02 - every well-formed program transpiles to Python that compiles.

Oracle: transpile(p, dict_compress, variables_as_digraphs) returns a str and
compile(out, "<vy>", "exec") raises nothing.
Domains
  sweep       every element key, every modifier (with enough operands), X and x
              in each of 20 context templates, under the four settings of
              transpile's own parameters
  generated   full-grammar ASTs (depth <= 4), and their end-truncated variants
              (every droppable suffix of trailing closers removed)
  exhaustive  all token strings of length <= N over the 14 structural symbols
              [ ] ( ) { } ⟨ ⟩ λ @ ; | X x   (N = 4 quick, 6 thorough), classified by
              an independent recogniser; only the well-formed ones are claimed
"""
from __future__ import annotations

import itertools
import re

from vx import campaign, harness, progs
from vx.harness import vyxal

RULE = ("element/context sweep + generated full-grammar programs (with end-truncations) + exhaustive short programs "
        "over a 14-symbol structural alphabet; non-trivial = an element or structure nested inside a structure, or a "
        "multi-line template below top level; distinct by (program text, settings)")
ASSUMPTIONS = [
    "well-formedness is by construction (vx/progs.py) or decided by the recogniser in this file, never by the repo's parser",
    "Python's compile() is the syntax oracle",
    "in the 14-symbol alphabet a lambda with an explicit arity branch, an empty/non-alphabetic name and stray closers or "
    "pipes are ill-formed: nothing is claimed for them",
]

SETTINGS = [(True, False), (False, False), (True, True), (False, True)]


def _norm_msg(e):
    m = getattr(e, "msg", None) or str(e)
    if "unicodeescape" in m or "unicode error" in m:
        return "incomplete-python-unicode-escape-in-string-literal"
    m = re.sub(r"'[^']{0,6}'$", "'…'", m) if "invalid literal" in m else m
    m = re.sub(r"\d+", "N", m)
    m = re.sub(r"\(.*\)", "", m)
    return m.strip().replace(" ", "_")[:70]


def check_text(text, settings=SETTINGS):
    """-> None or (sig, msg)"""
    for dc, vd in settings:
        tag = ("D" if not dc else "") + ("V" if vd else "")
        try:
            out = harness.transpile(text, dc, vd)
        except Exception as e:  # noqa: BLE001
            return (f"C02:transpile-raises:{type(e).__name__}:{_norm_msg(e)}",
                    f"transpile({text!r}, dict_compress={dc}, variables_as_digraphs={vd}) raised {type(e).__name__}: {e}")
        if not isinstance(out, str):
            return ("C02:not-a-string", f"transpile({text!r}) returned {type(out).__name__}")
        try:
            compile(out, "<vy>", "exec")
        except SyntaxError as e:
            line = (e.text or "").strip()
            nm = _norm_msg(e)
            if nm == "incomplete-python-unicode-escape-in-string-literal" and not re.search(r"\\[xuUN]", text):
                # the known finding is a backslash escape the USER wrote (`\x`, `\u12`, `\N`) being passed through;
                # the same compiler message without such an escape in the program is a different defect
                nm = "python-unicode-escape-that-the-program-does-not-contain"
            return (f"C02:SyntaxError:{nm}",
                    f"transpile({text!r}, dict_compress={dc}, variables_as_digraphs={vd}) is not valid Python: {e.msg} at line {e.lineno}: {line!r} [flags {tag or '-'}]")
        except ValueError as e:  # e.g. null bytes
            return (f"C02:compile-ValueError:{_norm_msg(e)}", f"compile of transpile({text!r}) raised {e!r}")
    return None


def _nontrivial_ast(ast):
    return progs.ast_depth(ast) >= 1 and any(d >= 1 for _, d in progs.walk(ast))


def _settings_for(ast):
    """With variables_as_digraphs a name longer than one letter splits into a name and
    further tokens, which is a different (possibly ill-formed) program: only claim
    those settings when every variable name has at most one character."""
    for n, _ in progs.walk(ast):
        if n[0] in ("get", "set") and len(n[1]) > 1:
            return SETTINGS[:2]
    return SETTINGS


def _do_ast(rec, ast, cls, truncations=True):
    text, k = progs.render_seq(ast)
    r = check_text(text, _settings_for(ast))
    rec.case(key=text, nontrivial=_nontrivial_ast(ast), cls=cls)
    if r:
        rec.fail(r[0], {"ast": ast, "drop": 0}, r[1])
    if truncations and not r:
        for j in range(1, k + 1):
            r2 = check_text(text[:-j], settings=SETTINGS[:2])
            rec.case(key=text[:-j], nontrivial=True, cls="end-truncated")
            if r2:
                rec.fail(r2[0] + ":truncated", {"ast": ast, "drop": j}, r2[1])
                break
    return text


# ---- sweep -------------------------------------------------------------------
E = lambda k: ["el", k]  # noqa: E731


def sweep_contexts():
    return [
        ("top", lambda L: [L]),
        ("if-body", lambda L: [["if", [[L]]]]),
        ("else-body", lambda L: [["if", [[E("+")], [L]]]]),
        ("elif-cond", lambda L: [["if", [[E("+")], [L], [E("-")], [E("_")]]]]),
        ("for-body", lambda L: [["for", None, [L]]]),
        ("for-named", lambda L: [["for", "i", [L, L]]]),
        ("while-body", lambda L: [["while", [E(":")], [L]]]),
        ("while-cond", lambda L: [["while", [L], [E("‹")]]]),
        ("lambda-body", lambda L: [["lam", None, [L]]]),
        ("map-body", lambda L: [["map", [L]]]),
        ("def-body", lambda L: [["def", "f", ["1", "a"], [L]]]),
        ("list-item", lambda L: [["list", [[["num", "1"]], [L]]]]),
        ("operand-v", lambda L: [["mod", "v", [L]]]),
        ("operand-dyad-A", lambda L: [["mod", "₌", [L, E("+")]]]),
        ("operand-dyad-B", lambda L: [["mod", "₍", [E("+"), L]]]),
        ("operand-triad", lambda L: [["mod", "≬", [E("+"), L, E("-")]]]),
        ("after-multiline", lambda L: [E("ġ"), L, E("R"), L]),
        ("if-in-for-in-lambda", lambda L: [["lam", 2, [["for", None, [["if", [[L], [L]]]]]]]]),
        ("list-in-lambda", lambda L: [["lam", None, [["list", [[L]]]]]]),
        ("while-in-def", lambda L: [["def", "g", [], [["while", [L], [L]]]]]),
        ("depth-4", lambda L: [["lam", None, [["for", None, [["if", [[["while", [E(":")], [L]]]]]]]]]]),
        ("list-item-depth-3", lambda L: [["map", [["for", "i", [["if", [[E("+")], [["list", [[L], [L]]]]]]]]]]]),
        ("def-in-while-in-if", lambda L: [["if", [[["while", None, [["def", "h", ["1"], [L]]]]]]]]),
        ("operand-of-operand", lambda L: [["for", None, [["mod", "₌", [["mod", "v", [L]], ["lam", None, [L]]]]]]]),
    ]


def _sweep_items():
    items = [E(k) for k in progs.ELEMENT_KEYS] + [["brk"], ["rec"]]
    for m, ar in progs.MOD_ARITY.items():
        items.append(["mod", m, [E("+")] * ar])
        items.append(["mod", m, [["lam", None, [E("d")]]] * ar])
    one = [E("+")]
    items += [["if", [one]], ["if", [one, one]], ["if", [one, one, one, one]], ["for", None, one], ["for", "k", one], ["while", None, one],
              ["while", one, one], ["lam", None, one], ["lam", 2, one], ["map", one], ["flt", one], ["srt", one], ["list", [one, []]],
              ["list", [[]]], ["def", "q", ["1", "a", "*"], one], ["if", [[]]], ["for", None, []], ["lam", 0, []], ["list", [[["brk"]], [["rec"]]]]]
    items += [["num", t] for t in progs.NUM_FORMS]
    items += [["str", "a\\"], ["two", "a\\"], ["two", '"\\'], ["chr", "\\"], ["chr", "'"], ["chr", "\n"], ["str", '"'],
              ["str", "\n"], ["cstr", "ab"], ["cnum", "ab"], ["cpn", "a"], ["get", ""], ["set", ""], ["get", "_a"],
              ["set", "_a"], ["get", "ab"], ["set", "ab"], ["call", "f"], ["def", "h", ["2"], [E("+")]]]
    return items


def _shard_sweep(rec, arg):
    shard, nshards = arg
    ctxs = sweep_contexts()
    i = 0
    for item in _sweep_items():
        for name, build in ctxs:
            i += 1
            if i % nshards != shard:
                continue
            _do_ast(rec, build(item), ["sweep", f"ctx-{name}"], truncations=False)
    if shard == 0:
        rec.sample({"sweep": progs.render(ctxs[15][1](E("¨…")))})
        rec.notes["sweep_items"] = len(_sweep_items())
        rec.notes["sweep_contexts"] = len(ctxs)


# ---- exhaustive 14-symbol alphabet -----------------------------------------------
ALPHA = ["[", "]", "(", ")", "{", "}", "⟨", "⟩", "λ", "@", ";", "|", "X", "x"]
WELL, ILL, LAMBDA_ARITY = "well", "ill", "lambda-arity"
_CLOSER = {"[": "]", "(": ")", "{": "}", "⟨": "⟩", "λ": ";", "@": ";"}


class _Ill(Exception):
    pass


def _recognise(toks):
    """Independent recogniser for the 14-symbol alphabet (see module docstring)."""
    n = len(toks)
    flags = {"lam_arity": False}

    def seq(i, stop):
        """items until a token in `stop` (not consumed) or end; -> index"""
        while i < n:
            t = toks[i]
            if t in stop:
                return i
            if t in ("X", "x"):
                i += 1
            elif t in _CLOSER:
                i = struct(i)
            else:
                raise _Ill()  # stray closer or pipe
        return i

    def struct(i):
        op = toks[i]
        cl = _CLOSER[op]
        i += 1
        if op == "@":
            j = i
            while j < n and toks[j] in ("X", "x"):
                j += 1
            if j == i:
                raise _Ill()  # empty / non-alphabetic name
            if j == n:
                return j
            if toks[j] == cl:
                return j + 1
            if toks[j] != "|":
                raise _Ill()
            k = seq(j + 1, {cl, "|"})
            if k < n and toks[k] == "|":
                raise _Ill()
            return k + 1 if k < n else k
        nbranches = 1
        first_branch = (i, None)
        k = seq(i, {cl, "|"})
        first_branch = (i, k)
        while k < n and toks[k] == "|":
            nbranches += 1
            k = seq(k + 1, {cl, "|"})
        if op == "λ" and nbranches >= 2:
            flags["lam_arity"] = True
        if op in ("(", "{") and nbranches > 2:
            raise _Ill()
        if op == "(" and nbranches == 2:
            a, b = first_branch
            if b == a or any(t not in ("X", "x") for t in toks[a:b]):
                raise _Ill()  # loop variable must be alphabetic
        return k + 1 if k < n else k

    try:
        end = seq(0, set())
    except _Ill:
        return ILL
    if end != n:
        return ILL
    return LAMBDA_ARITY if flags["lam_arity"] else WELL


def _shard_exh(rec, arg):
    L, shard, nshards = arg
    for idx, tup in enumerate(itertools.product(ALPHA, repeat=L)):
        if idx % nshards != shard:
            continue
        cls = _recognise(tup)
        if cls == ILL:
            rec.case(cls="exh-ill-formed(no claim)")
            continue
        text = "".join(tup)
        if cls == LAMBDA_ARITY:
            rec.case(cls="exh-lambda-arity-branch(no claim)")
            continue
        r = check_text(text, settings=SETTINGS[:1])
        rec.case(nontrivial=L >= 2, cls=f"exh-well-formed-len{L}")
        if r:
            rec.fail(r[0], {"text14": text}, r[1])
    if shard == 0 and L == 4:
        rec.sample({"alphabet14": "{X|[x", "class": _recognise(tuple("{X|[x"))})


# ---- raw string sources: every escape pair, written as the user would type it --------------------------------
# (the AST renderer always doubles backslashes, so a lone backslash before an ordinary character only
# arises here).  x u U N are left out: incomplete Python unicode escapes are the known finding.
RAW_ALPHA = ["\\", '"', "`", "\n", "a", "'"]
RAW_CONTEXTS = [("top", "{}"), ("lambda", "λ{};"), ("list-if", "⟨1[{}]⟩"), ("two-strings", "{}{}")]


def raw_string_ok(raw):
    """my own reading of the lexer's rule: a backslash takes the next character with it; an unescaped back-quote ends the string"""
    i = 0
    while i < len(raw):
        if raw[i] == "\\":
            if i + 1 >= len(raw):
                return False
            i += 2
        elif raw[i] == "`":
            return False
        else:
            i += 1
    return True


def _shard_raw(rec, arg):
    L, shard, nshards = arg
    for idx, tup in enumerate(itertools.product(RAW_ALPHA, repeat=L)):
        if idx % nshards != shard:
            continue
        raw = "".join(tup)
        if not raw_string_ok(raw):
            continue
        for name, tpl in RAW_CONTEXTS:
            text = tpl.replace("{}", "`" + raw + "`")
            r = check_text(text, settings=SETTINGS[:2])
            rec.case(nontrivial="\\" in raw or '"' in raw or "\n" in raw, cls=["raw-string-source", f"raw-string-len{L}"])
            if r:
                rec.fail(r[0] + ":raw-string", {"raw": raw, "ctx": name}, r[1])
    if L == 0:
        for a_ in RAW_ALPHA + ["`"]:
            for b_ in RAW_ALPHA + ["`"]:
                r = check_text("λ‛" + a_ + b_ + ";", settings=SETTINGS[:2])
                rec.case(nontrivial=True, cls=["raw-string-source", "two-char-string"])
                if r:
                    rec.fail(r[0] + ":raw-string", {"raw2": a_ + b_}, r[1])


def _shard_dictcodes(rec, arg):
    """Every dictionary-compression character next to every escape-relevant neighbour (the expansion of a code
    is spliced into a Python literal: what it starts / ends with must not combine with its neighbours)."""
    shard, nshards = arg
    codes = list(dict.fromkeys(vyxal.encoding.compression))
    forms = ["{c}", "{c}{c}", "{c}\\a", "{c}\\\\", "a{c}\\a", "{c}\"", "\"{c}", "{c}\n", "\\a{c}", "\\{c}", "{c}\\{c}", "{c} {c}a", "{c}0", "{c}x41", "{c}{c}\\a"]
    for i, c in enumerate(codes):
        if i % nshards != shard:
            continue
        for f in forms:
            raw = f.replace("{c}", c)
            if not raw_string_ok(raw):
                continue
            for tpl in ("{}", "λ{};"):
                text = tpl.replace("{}", "`" + raw + "`")
                r = check_text(text, settings=SETTINGS[:2])
                rec.case(nontrivial=True, cls=["dictionary-code-neighbours"])
                if r:
                    rec.fail(r[0] + ":dictionary-code", {"rawcode": raw}, r[1])


def _shard_hyp(rec, arg):
    seed, n = arg

    def t(p):
        text = _do_ast(rec, p, ["generated", f"depth{progs.ast_depth(p)}"])
        if len(rec.samples) < 5 and progs.ast_depth(p) >= 3:
            rec.sample({"program": text})

    campaign.hyp_run(t, {"p": progs.program_strategy(4, hot=True)}, seed, n)


def run(rec, tier, seed):
    quick = tier == "quick"
    ns = campaign.NCPU
    campaign.parallel(rec, _shard_sweep, [(s, ns * 2) for s in range(ns * 2)])
    rec.exhaustive.append("every element key / modifier / X / x in each of 24 context templates under 4 settings")
    N = 4 if quick else 6
    jobs = []
    for L in range(0, N + 1):
        k = 1 if L <= 3 else ns * (1 if L <= 4 else 4)
        jobs += [(L, s, k) for s in range(k)]
    campaign.parallel(rec, _shard_exh, jobs)
    rec.exhaustive.append(f"all strings of length<={N} over the 14 structural symbols (well-formed ones checked)")
    RL = 5 if quick else 7
    campaign.parallel(rec, _shard_raw, [(L, s_, 1 if L <= 4 else ns) for L in range(0, RL + 1) for s_ in range(1 if L <= 4 else ns)])
    rec.exhaustive.append(f"raw back-quoted string sources of length<={RL} over {{backslash, double quote, back-quote, newline, a, '}} in {len(RAW_CONTEXTS)} contexts; all two-character strings over them")
    campaign.parallel(rec, _shard_dictcodes, [(s_, ns) for s_ in range(ns)])
    rec.exhaustive.append("every dictionary-compression character x 15 neighbour forms (backslash escapes, quotes, newline, itself) x 2 contexts")
    n = 700 if quick else 25000
    campaign.parallel(rec, _shard_hyp, [(seed * 1000 + i, n) for i in range(ns)])
    if not quick:
        campaign.atheris_tier(rec, "C02", 20000, seed, procs=8, max_len=256)


def replay(case):
    if "text14" in case:
        t = case["text14"]
        if any(c not in ALPHA for c in t) or _recognise(tuple(t)) != WELL:
            return None
        return check_text(t, settings=SETTINGS[:1])
    if "raw" in case:
        raw, ctxs = case["raw"], dict(RAW_CONTEXTS)
        if not isinstance(raw, str) or any(c not in RAW_ALPHA for c in raw) or not raw_string_ok(raw) or case.get("ctx") not in ctxs:
            return None
        r = check_text(ctxs[case["ctx"]].replace("{}", "`" + raw + "`"), settings=SETTINGS[:2])
        return (r[0] + ":raw-string", r[1]) if r else None
    if "rawcode" in case:
        raw = case["rawcode"]
        if not isinstance(raw, str) or len(raw) > 12 or not raw_string_ok(raw) or not all(c in vyxal.encoding.codepage for c in raw):
            return None
        r = check_text("`" + raw + "`", settings=SETTINGS[:2]) or check_text("λ`" + raw + "`;", settings=SETTINGS[:2])
        return (r[0] + ":dictionary-code", r[1]) if r else None
    if "raw2" in case:
        t2 = case["raw2"]
        if not isinstance(t2, str) or len(t2) != 2 or any(c not in RAW_ALPHA + ["`"] for c in t2):
            return None
        r = check_text("λ‛" + t2 + ";", settings=SETTINGS[:2])
        return (r[0] + ":raw-string", r[1]) if r else None
    ast = case["ast"]
    progs.validate(ast)
    text, k = progs.render_seq(ast)
    j = case.get("drop", 0)
    if not isinstance(j, int) or j < 0 or j > k:
        return None
    if j:
        r = check_text(text[:-j], settings=SETTINGS[:2])
        return (r[0] + ":truncated", r[1]) if r else None
    return check_text(text, _settings_for(ast))


def fuzz_targets():
    found = []

    def t(p):
        text, k = progs.render_seq(p)
        r = check_text(text, _settings_for(p))
        if r:
            found.append((r[0], {"ast": p, "drop": 0}, r[1]))

    fz = campaign.hyp_fuzz_target(t, {"p": progs.program_strategy(4, hot=True)})

    def target(data):
        del found[:]
        fz(data)
        return list(found)

    def alphabet14(data):
        toks = tuple(ALPHA[b % len(ALPHA)] for b in data[:10])
        if _recognise(toks) != WELL:
            return []
        text = "".join(toks)
        r = check_text(text, settings=SETTINGS[:1])
        return [(r[0], {"text14": text}, r[1])] if r else []

    return {"generated-ast": target, "alphabet14-len<=10": alphabet14}
