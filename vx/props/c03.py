"""C03 - literal contents and comments are data, never syntax.

Metamorphic + model oracle on the parse *shape* (parse tree with literal token
values abstracted to their kind, vx/progs.py):
  (i)  shape(P[adversarial payloads]) == shape(P[benign payloads])
  (ii) shape(P[adversarial payloads]) == shape predicted from my AST
Domains
  generated   full-grammar ASTs (depth <= 4) whose literals carry payloads drawn
              mostly from the syntax-significant characters
  exhaustive  40 fixed contexts x 7 literal kinds x all payloads of length <= L
              over the 28 syntax-significant characters (L = 1 quick [2 for the
              two-character string], 2 thorough)
"""
from __future__ import annotations

import copy
import itertools

from vx import campaign, harness, progs

RULE = ("generated ASTs with adversarial literal payloads plus exhaustive short payloads in 40 fixed contexts; "
        "non-trivial = some payload contains a syntax-significant character and its literal sits inside a structure "
        "or is a modifier operand; distinct by rendered program text")
ASSUMPTIONS = [
    "where a literal ends is fixed by the lexer documentation: back-quote strings escape ` and \\ with a backslash, "
    "compressed literals exclude their own delimiter, ‛ takes two characters, \\ and ⁺ one, comments run to the newline",
    "names (function / loop-variable branches) are not literal slots",
]

SIG_CHARS = set(progs.SYNTAX_SIGNIFICANT)
MODS = set(progs.MOD_ARITY)


def benign_of(seq):
    """Same AST with every literal payload replaced by a benign one of the same kind."""
    out = copy.deepcopy(seq)

    def fix(s):
        for n in s:
            k = n[0]
            if k == "str":
                n[1] = "ab"
            elif k == "two":
                n[1] = "ab"
            elif k in ("chr", "cpn"):
                n[1] = "a"
            elif k in ("cnum", "cstr"):
                n[1] = "ab"
            elif k == "cmt":
                n[1] = "ab"
            for ch in progs.children(n):
                fix(ch)

    fix(out)
    return out


def _char_class(payload):
    cs = set(payload)
    if "X" in cs:
        return "X"
    if "x" in cs:
        return "x"
    if cs & MODS:
        return "modifier"
    if "|" in cs:
        return "bar"
    if cs & set(progs.OPEN):
        return "opener"
    if cs & set("])};⟩"):
        return "closer"
    return "other"


def _literals(seq):
    return [(n, d) for n, d in progs.walk(seq) if n[0] in progs.LITERAL_KINDS]


def check_ast(ast):
    """-> None or (sig, msg)"""
    text = progs.render(ast)
    try:
        got = progs.repo_shape(progs.parse_text(text), parents=False)
        got_p = progs.repo_shape(progs.parse_text(text), parents=True)
    except Exception as e:  # noqa: BLE001
        got = got_p = ("raises", type(e).__name__)
    want = progs.model_shape(ast)
    b = benign_of(ast)
    btext = progs.render(b)
    try:
        bshape = progs.repo_shape(progs.parse_text(btext), parents=True)
    except Exception as e:  # noqa: BLE001
        bshape = ("raises", type(e).__name__)
    if got == want and got_p == bshape:
        # the same under one-letter variable names (the V flag), for programs whose variable names have <= 1 letter
        if all(len(n[1]) <= 1 for n, _ in progs.walk(ast) if n[0] in ("get", "set")):
            try:
                got_v = progs.repo_shape(progs.parse_text(text, True), parents=False)
            except Exception as e:  # noqa: BLE001
                got_v = ("raises", type(e).__name__)
            if got_v != want:
                return ("C03:V-flag:grouping", f"program {text!r} lexed with variables_as_digraphs=True: grouping differs from the model; got {got_v!r}, predicted {want!r}")
        return None
    # attribute: which literal, made benign alone, restores the shape?
    culprit = None
    lits = _literals(ast)
    for i in range(len(lits)):
        trial = copy.deepcopy(ast)
        tl = _literals(trial)
        bl = _literals(benign_of(trial))
        tl[i][0][1] = bl[i][0][1]
        try:
            ok = progs.repo_shape(progs.parse_text(progs.render(trial))) == progs.model_shape(trial)
        except Exception:  # noqa: BLE001
            ok = False
        if ok:
            culprit = lits[i][0]
            break
    if culprit is not None:
        sig = f"C03:{culprit[0]}:{_char_class(culprit[1])}"
    elif len(lits) == 0:
        sig = "C03:no-literal:model-mismatch"
    else:
        sig = "C03:several-literals"
    how = "differs from the model" if got != want else "differs from the benign variant"
    return (sig, f"program {text!r}: grouping {how}; got {got!r}, predicted {want!r} (benign variant {btext!r})")


def _nontrivial(ast):
    for n, d in progs.walk(ast):
        if n[0] in progs.LITERAL_KINDS and d >= 1 and (set(n[1]) & SIG_CHARS):
            return True
    return False


def _do(rec, ast, cls):
    r = check_ast(ast)
    rec.case(key=progs.render(ast), nontrivial=_nontrivial(ast), cls=cls)
    if r:
        rec.fail(r[0], {"ast": ast}, r[1])
    return r


# ---- fixed contexts ------------------------------------------------------------
E = lambda k: ["el", k]  # noqa: E731


def contexts():
    """(name, builder(L) -> ast, hole_is_operand)"""
    return [
        ("top", lambda L: [L], False),
        ("if-1", lambda L: [["if", [[L]]]], False),
        ("if-else", lambda L: [["if", [[["num", "1"]], [L]]]], False),
        ("if-3-mid", lambda L: [["if", [[E("+")], [L], [E("-")]]]], False),
        ("for", lambda L: [["for", None, [L]]], False),
        ("for-var", lambda L: [["for", "i", [L, E("+")]]], False),
        ("while-cond", lambda L: [["while", [L], [E("‹")]]], False),
        ("while-body", lambda L: [["while", [E(":")], [L]]], False),
        ("lambda", lambda L: [["lam", None, [L]]], False),
        ("lambda-arity", lambda L: [["lam", 2, [L]]], False),
        ("map", lambda L: [["map", [L]]], False),
        ("filter", lambda L: [["flt", [L]]], False),
        ("sort", lambda L: [["srt", [L]]], False),
        ("def", lambda L: [["def", "f", ["1"], [L]]], False),
        ("def-named", lambda L: [["def", "g", ["a", "2"], [E("+"), L]]], False),
        ("list-first", lambda L: [["list", [[L], [["num", "2"]]]]], False),
        ("list-last", lambda L: [["list", [[["num", "1"]], [L]]]], False),
        ("mod-v", lambda L: [["mod", "v", [L]]], True),
        ("mod-dyad-A", lambda L: [["mod", "₌", [L, E("+")]]], True),
        ("mod-dyad-B", lambda L: [["mod", "₌", [E("+"), L]]], True),
        ("mod-triad-mid", lambda L: [["mod", "≬", [E("+"), L, E("-")]]], True),
        ("mod-lambda1", lambda L: [["mod", "⁽", [L]]], True),
        ("mod-ß", lambda L: [["mod", "ß", [L]]], True),
        ("mod-&", lambda L: [["mod", "&", [L]]], True),
        ("mod-ƒ", lambda L: [["mod", "ƒ", [L]]], True),
        ("mod-‡", lambda L: [["mod", "‡", [L, E("+")]]], True),
        ("deep", lambda L: [["lam", None, [["for", None, [["if", [[L]]]]]]]], False),
        ("before-break", lambda L: [["for", None, [L, ["brk"]]]], False),
        ("after-modifier", lambda L: [["mod", "v", [E("+")]], L], False),
        ("list-in-list", lambda L: [["list", [[["list", [[L]]]]]]], False),
        ("cond-in-if", lambda L: [["if", [[["while", [L], []]]]]], False),
        ("adjacent", lambda L: [L, L], False),
        ("before-element", lambda L: [L, E("+"), E("J")], False),
        ("mod-in-lambda", lambda L: [["lam", None, [["mod", "v", [L]]]]], True),
        ("if-rec-brk", lambda L: [["if", [[L, ["rec"]], [["brk"]]]]], False),
        ("mod-in-def", lambda L: [["def", "f", [], [["mod", "₍", [L, E("+")]]]]], True),
        ("mod-in-list", lambda L: [["list", [[["mod", "~", [L]]]]]], True),
        ("while-nocond", lambda L: [["while", None, [L]]], False),
        ("if-in-sort", lambda L: [["srt", [["if", [[L]]]]]], False),
        ("two-list-items", lambda L: [["for", "x", [["list", [[L], [L]]]]]], False),
    ]


def _payloads(kind, maxlen):
    chars = progs.SYNTAX_SIGNIFICANT
    if kind == "two":
        lens = [2]
    elif kind in ("chr", "cpn"):
        lens = [1]
    else:
        lens = list(range(0, maxlen + 1))
    for L in lens:
        for tup in itertools.product(chars, repeat=L):
            yield "".join(tup)


def _shard_exh(rec, arg):
    shard, nshards, maxlen = arg
    ctxs = contexts()
    assert len(ctxs) == 40
    i = 0
    for name, build, operand in ctxs:
        for kind in progs.LITERAL_KINDS:
            if kind == "cmt" and operand:
                continue
            for p in _payloads(kind, maxlen):
                i += 1
                if i % nshards != shard:
                    continue
                _do(rec, build([kind, p]), ["exh-context", f"kind-{kind}"])
    if shard == 0:
        rec.sample({"context": "mod-dyad-B", "kind": "cnum", "payload": "ß|", "program": progs.render(ctxs[19][1](["cnum", "ß|"]))})


def _shard_hyp(rec, arg):
    seed, n = arg

    def t(p):
        r = _do(rec, p, ["generated", f"depth{progs.ast_depth(p)}"])
        if len(rec.samples) < 5 and progs.ast_depth(p) >= 2 and _nontrivial(p):
            rec.sample({"program": progs.render(p)})

    campaign.hyp_run(t, {"p": progs.program_strategy(4, hot=True)}, seed, n)


# ---- execution tier: two literals at different depths; swapping payloads changes only the two pushed values ----------
# (the parse-tree oracle cannot see a payload-dependent slip made after parsing, e.g. in how a literal is lowered)
def _q(v, kind):
    if kind == "str":
        return "`" + v.replace("\\", "\\\\").replace("`", "\\`") + "`"
    if kind == "two":
        return "‛" + v
    return "\\" + v


PAIR_TEMPLATES = [
    # (name, program with {A} {B}, expected final stack as a function of the two denoted values)
    ("seq-then-if", "{A} 1[{B}|0]", lambda a, b: [a, b]),
    ("else-branch", "0[{A}|{B}]", lambda a, b: [b]),
    ("for-body", "{A} 2({B})", lambda a, b: [a, b, b]),
    ("lambda-then-nested-if", "λ{A};† 1[1[{B}]]", lambda a, b: [a, b]),
    ("list-items", "⟨{A}|1[{B}]⟩", lambda a, b: [[a, b]]),
    ("function-then-loop-in-if", "@f|{A};1[2({B})]@f;", lambda a, b: [b, b, a]),
    ("deep-then-shallow", "1[1[1[{A}]]] {B}", lambda a, b: [a, b]),
    ("while-once", "{A} 1{:|{B}$‹}_", lambda a, b: [a, b]),
]


def check_pair(tname, kind, pa, pb):
    tpl = {t[0]: t for t in PAIR_TEMPLATES}[tname]
    text = tpl[1].replace("{A}", _q(pa, kind)).replace("{B}", _q(pb, kind))
    want = harness.norm(tpl[2](pa, pb))
    r = harness.run_program(text, dict_compress=False, budget=300_000)
    if r.exc is not None:
        return (f"C03:exec-pair:{kind}:raises:{type(r.exc).__name__}", f"program {text!r} (compression off) raised {type(r.exc).__name__}: {r.exc}; with other payloads of the same kind it leaves {tpl[2]('A', 'B')!r}")
    got = harness.norm(r.stack)
    if got != want:
        return (f"C03:exec-pair:{kind}:{'equal-payloads' if pa == pb else 'value'}", f"program {text!r} (compression off) left {harness.jsonable(got)!r}, expected {harness.jsonable(want)!r}: "
                f"the payloads changed more than the two pushed values")
    return None


def _shard_pairs(rec, arg):
    shard, nshards, full = arg
    chars = progs.SYNTAX_SIGNIFICANT + ["a", "\\", "`", '"']
    i = 0
    for tname, _, _ in PAIR_TEMPLATES:
        for kind in ("str", "two", "chr"):
            for ca in chars:
                for cb in (chars if full else [ca, chars[(chars.index(ca) * 7 + 3) % len(chars)], "|", "]"]):
                    i += 1
                    if i % nshards != shard:
                        continue
                    pa, pb = (ca, cb) if kind != "two" else (ca + ca, cb + cb)
                    if kind in ("two", "chr") and ("\\" in pa + pb):
                        continue  # what a backslash denotes inside these kinds is C06's business, not grouping
                    r = check_pair(tname, kind, pa, pb)
                    rec.case(nontrivial=True, cls=["execution-pairs", f"pair-template {tname}"])
                    if r:
                        rec.fail(r[0], {"pair": [tname, kind, pa, pb]}, r[1])


def run(rec, tier, seed):
    quick = tier == "quick"
    campaign.parallel(rec, _shard_pairs, [(s, campaign.NCPU, not quick) for s in range(campaign.NCPU)])
    rec.exhaustive.append(f"execution tier: {len(PAIR_TEMPLATES)} two-literal templates x 3 kinds x payload pairs over the syntax-significant characters "
                          + ("(all pairs)" if not quick else "(equal pair, one other, |, ])"))
    ns = campaign.NCPU
    maxlen = 1 if quick else 2
    campaign.parallel(rec, _shard_exh, [(s, ns, maxlen) for s in range(ns)])
    rec.exhaustive.append(f"40 contexts x 7 literal kinds x payloads of length<={maxlen} (two-character strings: exactly 2) over the 28 syntax-significant characters")
    n = 1200 if quick else 40000
    campaign.parallel(rec, _shard_hyp, [(seed * 1000 + i, n) for i in range(ns)])
    if not quick:
        campaign.atheris_tier(rec, "C03", 30000, seed, procs=8, max_len=256)


def replay(case):
    if "pair" in case:
        tname, kind, pa, pb = case["pair"]
        if tname not in {t[0] for t in PAIR_TEMPLATES} or kind not in ("str", "two", "chr") or not all(isinstance(x, str) and 1 <= len(x) <= 2 for x in (pa, pb)):
            return None
        if kind == "two" and (len(pa) != 2 or len(pb) != 2) or kind != "two" and (len(pa) != 1 or len(pb) != 1):
            return None
        return check_pair(tname, kind, pa, pb)
    ast = case["ast"]
    progs.validate(ast)
    return check_ast(ast)


def fuzz_targets():
    found = []

    def t(p):
        r = check_ast(p)
        if r:
            found.append((r[0], {"ast": p}, r[1]))

    fz = campaign.hyp_fuzz_target(t, {"p": progs.program_strategy(4, hot=True)})

    def target(data):
        del found[:]
        fz(data)
        return list(found)

    return {"generated-ast": target}
