"""C04 - omitting trailing closers never changes the parse.

Metamorphic: for a fully closed program P whose text ends in a run of k
droppable closers (closing brackets, closing semicolons, the closing delimiter
of a final string / compressed literal), every P[:-j], 1 <= j <= k, must parse
to the same tree: repr(parse(tokenise(.))) is compared (structure reprs are
deterministic at parse level).
Domains: generated full-grammar ASTs (depth <= 4, programs ending in lambdas,
lists, function definitions, modifier operands and >= 3 open structures
boosted) and an exhaustive family of small nested shells.
"""
from __future__ import annotations

import itertools

from hypothesis import strategies as st

from vx import campaign, progs
from vx.harness import vyxal

RULE = ("generated closed programs with every droppable suffix of their trailing closers removed, plus an exhaustive "
        "family of nested shells; non-trivial = >=2 closers dropped or closers of >=2 kinds in the run; "
        "distinct by (closed text, number dropped)")
ASSUMPTIONS = [
    "which trailing characters are closers is known from my renderer (vx/progs.py), not from the repo's parser",
    "a trailing comment's newline is not counted as a closer",
]


def tree(text, digraphs=False):
    return repr(vyxal.parse.parse(vyxal.lexer.tokenise(text, digraphs)))


def check_text(closed: str, k: int, vmode: bool = False):
    """Default lexer mode and, when vmode, also one-letter variable names (the V flag; variables_as_digraphs).
    vmode is only sound for programs whose variable names have at most one letter: a longer name is a different
    program under V (`→ak;` is `→a` followed by the constant digraph `k;`)."""
    return _check_text(closed, k, False) or (_check_text(closed, k, True) if vmode else None)


def _check_text(closed: str, k: int, digraphs: bool):
    """all suffixes 1..k of the closer run; -> None or (sig, msg)"""
    tree_ = (lambda t: tree(t, True)) if digraphs else tree
    tag = ":V-flag" if digraphs else ""
    try:
        want = tree_(closed)
    except Exception as e:  # noqa: BLE001
        return (f"C04:closed-raises:{type(e).__name__}" + tag, f"fully closed program {closed!r} does not parse: {e!r}")
    for j in range(1, k + 1):
        trunc = closed[:-j]
        dropped = closed[-j:]
        try:
            got = tree_(trunc)
        except Exception as e:  # noqa: BLE001
            return (f"C04:truncated-raises:{type(e).__name__}:dropped={''.join(sorted(set(dropped)))}" + tag,
                    f"{closed!r} without its last {j} closer(s) ({trunc!r}) raised {e!r}")
        if got != want:
            return (f"C04:differs:dropped={''.join(sorted(set(dropped)))}" + tag,
                    ("[one-letter variable names] " if digraphs else "") + f"{closed!r} parses to {want}; without its last {j} closer(s) ({trunc!r}) it parses to {got}")
    return None


def check_ast(ast):
    text, k = progs.render_seq(ast)
    vmode = all(len(n[1]) <= 1 for n, _ in progs.walk(ast) if n[0] in ("get", "set"))
    return check_text(text, k, vmode), text, k


def _do(rec, ast, cls):
    r, text, k = check_ast(ast)
    run = text[len(text) - k:] if k else ""
    nt = k >= 2 or len(set(run)) >= 2
    rec.case(key=text, nontrivial=nt, cls=[cls, f"closers{min(k, 6)}"], n=max(1, k))
    if r:
        rec.fail(r[0], {"ast": ast}, r[1])
    return text, k


# ending-biased programs: wrap a generated program so that it ENDS inside nested open structures
def _enders(inner_seq, inner_node):
    def wrap(t):
        body, kinds = t
        cur = body
        for kind in kinds:
            if kind == "if":
                cur = [["if", [[["num", "1"]], cur]]]
            elif kind == "for":
                cur = [["for", None, cur]]
            elif kind == "forv":
                cur = [["for", "i", cur]]
            elif kind == "while":
                cur = [["while", [["el", ":"]], cur]]
            elif kind == "lam":
                cur = [["lam", None, cur]]
            elif kind == "lam2":
                cur = [["lam", 2, cur]]
            elif kind == "map":
                cur = [["map", cur]]
            elif kind == "flt":
                cur = [["flt", cur]]
            elif kind == "srt":
                cur = [["srt", cur]]
            elif kind == "def":
                cur = [["def", "f", ["1"], cur]]
            elif kind == "list":
                cur = [["list", [[["num", "2"]], cur]]]
            elif kind == "liste":
                cur = [["list", [cur, []]]]
            elif kind == "mod":
                cur = [["el", "+"], ["mod", "v", [cur[-1]]]] if cur else [["mod", "v", [["el", "+"]]]]
            elif kind == "mod2":
                cur = [["mod", "₌", [["el", "+"], cur[-1]]]] if cur else cur
        return cur

    kinds = st.lists(st.sampled_from(["if", "for", "forv", "while", "lam", "lam2", "map", "flt", "srt", "def", "list",
                                      "liste", "mod", "mod2"]), min_size=1, max_size=5)
    return st.tuples(inner_seq, kinds).map(wrap)


SHELLS = {
    "if": lambda b: ["if", [b]], "ifelse": lambda b: ["if", [[["num", "1"]], b]], "ife": lambda b: ["if", [b, []]],
    "for": lambda b: ["for", None, b], "while": lambda b: ["while", None, b], "whilec": lambda b: ["while", [["num", "1"]], b],
    "lam": lambda b: ["lam", None, b], "lam1": lambda b: ["lam", 1, b], "map": lambda b: ["map", b],
    "flt": lambda b: ["flt", b], "srt": lambda b: ["srt", b], "def": lambda b: ["def", "f", [], b],
    "list": lambda b: ["list", [b]], "list2": lambda b: ["list", [[["num", "1"]], b]], "liste": lambda b: ["list", [b, []]],
}
CORES = [[], [["el", "+"]], [["str", "a"]], [["str", ""]], [["cstr", "ab"]], [["cnum", "a"]], [["call", "f"]],
         [["num", "1"]], [["mod", "v", [["el", "+"]]]], [["mod", "v", [["str", "a"]]]], [["set", "a"]], [["chr", ";"]],
         [["two", "];"]], [["str", "a\\"]], [["str", "]"]], [["brk"]]]


def _shard_exh(rec, arg):
    shard, nshards, depth = arg
    i = 0
    names = list(SHELLS)
    for d in range(0, depth + 1):
        for combo in itertools.product(names, repeat=d):
            for core in CORES:
                i += 1
                if i % nshards != shard:
                    continue
                cur = core
                for nm in combo:
                    cur = [SHELLS[nm](cur)]
                _do(rec, cur, "exh-shell")
    if shard == 0:
        a = [SHELLS["lam"]([SHELLS["list2"]([["str", "a"]])])]
        rec.sample({"closed": progs.render(a), "droppable": progs.render_seq(a)[1]})


def _shard_hyp(rec, arg):
    seed, n = arg

    def t(p):
        text, k = _do(rec, p, "generated")
        if len(rec.samples) < 5 and k >= 3:
            rec.sample({"closed": text, "droppable": k})

    campaign.hyp_run(t, {"p": progs.program_strategy(4, hot=True, comments=True)}, seed, n // 2)
    inner = progs.program_strategy(2, hot=False, comments=False, max_len=3)

    def t2(p):
        text, k = _do(rec, p, "generated-ending-open")
        if len(rec.samples) < 8 and k >= 4:
            rec.sample({"closed": text, "droppable": k})

    campaign.hyp_run(t2, {"p": _enders(inner, None)}, seed + 1, n // 2)


def run(rec, tier, seed):
    quick = tier == "quick"
    ns = campaign.NCPU
    depth = 3 if quick else 4
    campaign.parallel(rec, _shard_exh, [(s, ns, depth) for s in range(ns)])
    rec.exhaustive.append(f"{len(CORES)} cores wrapped in every sequence of <= {depth} of {len(SHELLS)} structure shells")
    n = 2500 if quick else 60000
    campaign.parallel(rec, _shard_hyp, [(seed * 1000 + i, n) for i in range(ns)])
    if not quick:
        campaign.atheris_tier(rec, "C04", 30000, seed, procs=8, max_len=256)


def replay(case):
    ast = case["ast"]
    progs.validate(ast)
    return check_ast(ast)[0]


def fuzz_targets():
    found = []

    def t(p):
        r, text, k = check_ast(p)
        if r:
            found.append((r[0], {"ast": p}, r[1]))

    fz = campaign.hyp_fuzz_target(t, {"p": progs.program_strategy(4, hot=True, comments=True)})

    def target(data):
        del found[:]
        fz(data)
        return list(found)

    return {"generated-ast": target}
