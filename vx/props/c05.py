"""C05 - numeric literals denote exactly their decimal value.

Domains
  ints      exhaustive 0..N (N = 20 000 quick, 1 000 000 thorough) + random to 10^60
  decimals  <=25 integer digits, <=18 fractional digits: uniform digits, and
            prefixes (6..18 fractional digits) of famous constants / repeating
            tails, which is where a closed-form 'simplifier' would bite
  split     all strings over [0-9. ] (digits, point, space) up to length L (5 quick, 7 thorough) are
            lexed and compared with a reference splitter; a stride sample of
            them is also executed and every pushed value compared
Oracle: fractions.Fraction(piece), exact; type must be int / sympy Integer /
sympy Rational.
"""
from __future__ import annotations

import itertools
from fractions import Fraction

from hypothesis import strategies as st

from vx import campaign, harness
from vx.harness import vyxal

RULE = ("integer literals enumerated exhaustively in a range plus Hypothesis-generated literals; "
        "non-trivial = literal with >=2 digits (decimals: a non-zero fractional digit; split strings: >=2 pieces); "
        "distinct by literal text")
ASSUMPTIONS = [
    "fractions.Fraction(text) is the denotation of a decimal literal",
    "pieces with no digit ('.' alone, documented as 0.5) and the complex marker are outside the claim",
]

T = vyxal.lexer.TokenType


def ref_split(s: str):
    """Reference splitter written from the lexer's comments: a leading 0 stands
    alone unless followed by '.', a second '.' starts a new number; a space
    separates literals (and is not part of any)."""
    if " " in s:
        return [p for seg in s.split(" ") for p in ref_split(seg)]
    out, i, n = [], 0, len(s)
    while i < n:
        if s[i] == "0" and not (i + 1 < n and s[i + 1] == "."):
            out.append("0")
            i += 1
            continue
        j, dots = i, 0
        while j < n:
            if s[j] == ".":
                if dots == 1:
                    break
                dots += 1
            j += 1
        out.append(s[i:j])
        i = j
    return out


def _values_of(text: str):
    """Run the text alone; -> list of pushed values or raises."""
    r = harness.run_program(text, budget=200_000)
    if r.exc is not None:
        raise r.exc
    return r.stack


def check_literal(text: str):
    """Oracle for one program made only of number characters.
    -> None or (sig, msg)."""
    pieces = ref_split(text)
    try:
        toks = vyxal.lexer.tokenise(text)
    except Exception as e:  # noqa: BLE001
        return ("C05:lexer-raises", f"tokenise({text!r}) raised {type(e).__name__}: {e}")
    got = [(t.name, t.value) for t in toks if not (t.name == T.GENERAL and t.value == " ")]
    want = [(T.NUMBER, p) for p in pieces]
    if got != want:
        return ("C05:split", f"{text!r} lexes as {[v for _, v in got]!r}, documented split is {pieces!r}")
    claimed = [p for p in pieces if any(c.isdigit() for c in p)]
    if len(claimed) != len(pieces):
        return None  # contains a bare '.', outside the claim (value check skipped)
    try:
        vals = _values_of(text)
    except BaseException as e:  # noqa: BLE001
        return ("C05:raises", f"running {text!r} raised {type(e).__name__}: {e}")
    if len(vals) != len(pieces):
        return ("C05:count", f"{text!r} pushed {len(vals)} values for {len(pieces)} literals")
    for p, v in zip(pieces, vals):
        want_v = Fraction(p)
        got_v = harness.exact_number(v)
        kind = "int" if "." not in p else "dec"
        if got_v is None:
            return (f"C05:type:{kind}", f"literal {p!r} pushed {v!r} of type {type(v).__name__}, not an exact number")
        if got_v != want_v:
            return (f"C05:value:{kind}", f"literal {p!r} pushed {v!r} (= {got_v}), expected exactly {want_v}")
    return None


# the same literal inside other constructs: (template, how to find the literal's value on the resulting stack)
CONTEXTS = [
    ("list-item", "⟨{}⟩", lambda st: st[0][0] if len(st) == 1 and len(list(st[0])) == 1 else None),
    ("list-middle", "⟨1|{}|2⟩", lambda st: list(st[0])[1] if len(st) == 1 and len(list(st[0])) == 3 else None),
    ("lambda", "λ{};†", lambda st: st[-1] if st else None),
    ("for-body", "1({})", lambda st: st[-1] if st else None),
    ("if-branch", "1[{}|0]", lambda st: st[-1] if st else None),
    ("map-body", "1ƛ{};", lambda st: list(st[0])[0] if len(st) == 1 and len(list(st[0])) == 1 else None),
]


def check_in_contexts(piece: str):
    """One literal (a single piece with a digit) inside each construct must denote the same value."""
    want_v = Fraction(piece)
    for name, tpl, pick in CONTEXTS:
        text = tpl.replace("{}", piece)
        try:
            vals = _values_of(text)
            v = pick(vals)
        except BaseException as e:  # noqa: BLE001
            return (f"C05:context-{name}:raises", f"running {text!r} raised {type(e).__name__}: {e}")
        got_v = harness.exact_number(v) if v is not None else None
        if got_v is None:
            return (f"C05:context-{name}:type", f"literal {piece!r} in {text!r} produced {v!r} ({type(v).__name__}), not an exact number")
        if got_v != want_v:
            return (f"C05:context-{name}:value", f"literal {piece!r} in {text!r} produced {v!r} (= {got_v}), expected exactly {want_v}")
    return None


def _nontrivial(text):
    pcs = ref_split(text)
    if len(pcs) >= 2:
        return True
    p = pcs[0] if pcs else ""
    if "." in p:
        return any(c in "123456789" for c in p.split(".", 1)[1])
    return len(p) >= 2


def _do(rec, text, cls, contexts=False):
    r = check_literal(text)
    rec.case(key=text, nontrivial=_nontrivial(text), cls=cls)
    if r:
        rec.fail(r[0], {"text": text}, r[1])
    elif contexts:
        pcs = ref_split(text)
        if len(pcs) == 1 and any(c.isdigit() for c in pcs[0]):
            r = check_in_contexts(pcs[0])
            rec.case(key=("ctx", text), nontrivial=_nontrivial(text), cls=[cls, "inside-constructs"], n=len(CONTEXTS))
            if r:
                rec.fail(r[0], {"text": text, "contexts": True}, r[1])
    return r


# ---- shards ------------------------------------------------------------------
def _shard_ints(rec, arg):
    lo, hi = arg
    for n in range(lo, hi):
        _do(rec, str(n), "int-exhaustive", contexts=(n % 41 == 0 or n < 30))
    if lo == 0:
        rec.sample({"literal": str(hi - 1), "pushed": str(Fraction(hi - 1))})


def _shard_split(rec, arg):
    length, shard, nshards, exec_stride = arg
    alphabet = "0123456789. "
    for idx, tup in enumerate(itertools.product(alphabet, repeat=length)):
        if idx % nshards != shard:
            continue
        s = "".join(tup)
        pieces = ref_split(s)
        try:
            toks_ = [t for t in vyxal.lexer.tokenise(s) if not (t.name == T.GENERAL and t.value == " ")]
            got = [t.value for t in toks_]
            kinds_ok = all(t.name == T.NUMBER for t in toks_)
        except Exception as e:  # noqa: BLE001
            got, kinds_ok = repr(e), False
        rec.case(nontrivial=len(pieces) >= 2, cls=f"split-len{length}")
        if got != pieces or not kinds_ok:
            rec.fail("C05:split", {"text": s}, f"{s!r} lexes as {got!r}, documented split is {pieces!r}")
        elif exec_stride and (idx // nshards) % exec_stride == 0:
            _do(rec, s, "split-executed")
    if shard == 0:
        rec.sample({"text": "00.5.25", "reference_split": ref_split("00.5.25")})


CONSTS = [
    "1.4142135623730950488", "1.7320508075688772935", "3.1415926535897932384", "2.7182818284590452353",
    "1.6180339887498948482", "0.6931471805599453094", "0.3333333333333333333", "0.1428571428571428571",
    "0.6666666666666666666", "0.7071067811865475244", "2.2360679774997896964", "0.5772156649015328606",
    "0.1111111111111111111", "0.0909090909090909090", "1.0471975511965977461", "0.9999999999999999999",
    "1.2599210498948731647", "2.6457513110645905905", "0.8660254037844386467", "6.2831853071795864769",
]


def _dec_strategy():
    digits = st.text("0123456789", min_size=0, max_size=18)
    intpart = st.one_of(
        st.just("0"), st.just(""),
        st.integers(1, 10 ** 25 - 1).map(str),
        st.integers(1, 999).map(str),
    )
    uniform = st.tuples(intpart, digits).map(lambda t: t[0] + "." + t[1]).filter(lambda s: any(c.isdigit() for c in s))
    const = st.tuples(st.sampled_from(CONSTS), st.integers(3, 19), st.integers(0, 3)).map(
        lambda t: (t[0][: 2 + t[1]]) if t[2] else t[0][: 2 + t[1]].lstrip("0") or "0.")
    scaled = st.tuples(st.sampled_from(CONSTS), st.integers(6, 19), st.integers(1, 9999)).map(
        lambda t: str(t[2]) + t[0][1: 2 + t[1]])
    return st.one_of(uniform, const, const, scaled)


def _shard_hyp(rec, arg):
    seed, n = arg

    def t_dec(text):
        _do(rec, text, "decimal", contexts=True)

    campaign.hyp_run(t_dec, {"text": _dec_strategy()}, seed, n)

    def t_big(k):
        _do(rec, str(k), "int-random", contexts=True)

    campaign.hyp_run(t_big, {"k": st.one_of(st.integers(0, 10 ** 60), st.integers(10 ** 6, 10 ** 18))}, seed + 7, max(50, n // 4))

    def t_adj(parts):
        _do(rec, "".join(parts), "adjacent")

    piece = st.one_of(st.text("0123456789", min_size=1, max_size=6), st.just("."), st.just("0"), st.just("0."), st.just(" "), st.just(" "),
                      st.tuples(st.integers(0, 999), st.integers(0, 999)).map(lambda t: f"{t[0]}.{t[1]}"))
    campaign.hyp_run(t_adj, {"parts": st.lists(piece, min_size=2, max_size=6)}, seed + 13, max(80, n // 3))
    rec.sample({"literal": "1.4142135623730951", "expected": str(Fraction("1.4142135623730951"))})


def run(rec, tier, seed):
    quick = tier == "quick"
    top = 20_000 if quick else 1_000_000
    step = top // (campaign.NCPU * 4)
    campaign.parallel(rec, _shard_ints, [(lo, min(top, lo + step)) for lo in range(0, top, step)])
    rec.exhaustive.append(f"integer literals 0..{top - 1}")
    maxlen = 5 if quick else 7
    jobs = []
    for L in range(1, maxlen + 1):
        ns = 1 if L <= 3 else campaign.NCPU * (1 if L < 7 else 4)
        stride = {1: 1, 2: 1, 3: 1, 4: 10, 5: 120, 6: 1500, 7: 18000}[L]
        jobs += [(L, s, ns, stride) for s in range(ns)]
    campaign.parallel(rec, _shard_split, jobs)
    rec.exhaustive.append(f"lexing of all strings over [0-9. ] of length<={maxlen} against the reference splitter")
    n = 250 if quick else 6000
    campaign.parallel(rec, _shard_hyp, [(seed * 1000 + i, n) for i in range(campaign.NCPU)])


def replay(case):
    if case.get("contexts"):
        pcs = ref_split(case["text"])
        if len(pcs) != 1 or not any(c.isdigit() for c in pcs[0]):
            return None
        return check_in_contexts(pcs[0])
    return check_literal(case["text"])
