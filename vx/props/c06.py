"""C06 - quoting a string and evaluating the quoted text returns the same string.

Channels (each must leave exactly [s] on the stack):
  q-run     run quotify(s) as a program               (compression off; on for ASCII)
  direct    run `...` written by my own escaper        (compression off; on for ASCII)
  in-lang   stack=[s], program `qĖ`                    (ctx.dictionary_compression as above)
Domains: all strings of length <= 3 over {\\ ` " ' newline a n x 0 λ} (1 111,
exhaustive, every channel) and Hypothesis strings of length <= 40 over the 256
code-page characters / over code-page printable ASCII.
"""
from __future__ import annotations

import itertools
import string

from hypothesis import strategies as st

from vx import campaign, harness
from vx.harness import vyxal

RULE = ("strings enumerated exhaustively over the escape-relevant alphabet (length<=3) plus Hypothesis strings to "
        "length 40 over the code page; non-trivial = contains one of backslash, back-quote, double quote, newline; "
        "distinct by (string, channel, compression)")
ASSUMPTIONS = [
    "programs are executed by transpile + exec in one namespace, as main.execute_vyxal does",
    "with dictionary compression on only code-page printable-ASCII strings are claimed (as the property states)",
]

CP = vyxal.encoding.codepage
ESC_ALPHABET = ["\\", "`", '"', "'", "\n", "a", "n", "x", "0", "λ"]
ASCII_CP = "".join(c for c in CP if c in string.printable)
HARD = set('\\`"\n')


def my_quote(s: str) -> str:
    return "`" + s.replace("\\", "\\\\").replace("`", "\\`") + "`"


def check(s: str, channel: str, compress: bool, prime: bool = False):
    """prime: first run the same program under the *other* compression setting (result ignored):
    the property must hold whatever was transpiled earlier in the same process."""
    sig = f"C06:{channel}:{'compress' if compress else 'raw'}" + (":after-other-setting" if prime else "")
    if prime:
        try:
            if channel == "in-lang":
                c0 = harness.fresh_ctx()
                c0.dictionary_compression = not compress
                harness.run_program("qĖ", ctx=c0, stack=[s], dict_compress=not compress, budget=300_000)
            else:
                p0 = vyxal.elements.quotify(s, harness.fresh_ctx()) if channel == "q-run" else my_quote(s)
                harness.run_program(p0 if channel != "unterminated" else p0[:-1], dict_compress=not compress, budget=300_000)
        except Exception:  # noqa: BLE001
            pass
    try:
        if channel == "q-run":
            ctx0 = harness.fresh_ctx()
            prog = vyxal.elements.quotify(s, ctx0)
            r = harness.run_program(prog, dict_compress=compress, budget=300_000)
        elif channel == "direct":
            prog = my_quote(s)
            r = harness.run_program(prog, dict_compress=compress, budget=300_000)
        elif channel == "unterminated":
            prog = my_quote(s)[:-1]
            r = harness.run_program(prog, dict_compress=compress, budget=300_000)
        elif channel == "in-lang":
            prog = "qĖ"
            ctx = harness.fresh_ctx()
            ctx.dictionary_compression = compress
            r = harness.run_program(prog, ctx=ctx, stack=[s], dict_compress=compress, budget=300_000)
        else:
            raise ValueError(channel)
    except Exception as e:  # noqa: BLE001  (quotify itself raised)
        return (sig + f":raises:{type(e).__name__}", f"quoting {s!r} raised {e!r}")
    if r.exc is not None:
        return (sig + f":raises:{type(r.exc).__name__}", f"{channel}: program {prog!r} for s={s!r} raised {type(r.exc).__name__}: {r.exc}")
    if len(r.stack) != 1 or type(r.stack[0]) is not str or r.stack[0] != s:
        return (sig + ":value", f"{channel}: program {prog!r} left {r.stack!r}, expected [{s!r}]")
    return None


CHANNELS = ["q-run", "direct", "in-lang", "unterminated"]


def _do(rec, s, channel, compress, cls):
    if channel == "unterminated" and (s.endswith("\\") or s == ""):
        # dropping the closer after a trailing escaped backslash/empty string is C04's business; skip the odd cases
        pass
    prime = (len(s) + len(channel) + (1 if compress else 0)) % 2 == 1   # deterministic half of the cases
    r = check(s, channel, compress, prime)
    rec.case(key=(s, channel, compress, prime), nontrivial=bool(HARD & set(s)), cls=[cls, channel, "compress" if compress else "raw"] + (["primed with the other setting"] if prime else []))
    if r:
        rec.fail(r[0], {"s": s, "channel": channel, "compress": compress, "prime": prime}, r[1])


def _shard_exh(rec, arg):
    shard, nshards = arg
    i = 0
    for L in range(0, 4):
        for tup in itertools.product(ESC_ALPHABET, repeat=L):
            i += 1
            if i % nshards != shard:
                continue
            s = "".join(tup)
            ascii_only = all(c in ASCII_CP for c in s)
            for ch in CHANNELS:
                _do(rec, s, ch, False, "exhaustive")
                if ascii_only:
                    _do(rec, s, ch, True, "exhaustive")
    if shard == 0:
        rec.sample({"s": "a\\`\"\n", "quoted": my_quote("a\\`\"\n")})


# characters that are syntax somewhere in the language (structure openers / closers, comment, separators): a string
# made only of them must still be data - exhaustive to length 4 (direct channel, both settings)
SYN_ALPHABET = ["#", "{", "}", "[", "]", "(", ")", "|", ";", "⟨", "⟩", "λ", "@", ":", "\n", " "]


def _shard_syn(rec, arg):
    shard, nshards, L = arg
    for i, tup in enumerate(itertools.product(SYN_ALPHABET, repeat=L)):
        if i % nshards != shard:
            continue
        s = "".join(tup)
        _do(rec, s, "direct", False, "exhaustive-syntax-alphabet")
        if all(c in ASCII_CP for c in s):
            _do(rec, s, "q-run", True, "exhaustive-syntax-alphabet")


def _shard_cp2(rec, arg):
    """every string of two code-page characters (direct channel, compression off): digraphs, documented
    alternative spellings, dictionary codes ... none of them may be anything but data inside a string"""
    shard, nshards = arg
    for i, a in enumerate(CP):
        if i % nshards != shard:
            continue
        for b in CP:
            _do(rec, a + b, "direct", False, "exhaustive-codepage-pairs")


def _shard_hyp(rec, arg):
    seed, n = arg

    def t_prog(p, ch, compress):
        s = p.replace("\r", "")
        if len(s) > 60 or not all(c in CP for c in s) or (compress and not all(c in ASCII_CP for c in s)):
            return
        _do(rec, s, ch, compress, "program-shaped-string")

    from vx import progs

    campaign.hyp_run(t_prog, {"p": progs.program_strategy(3, hot=True, comments=True).map(progs.render), "ch": st.sampled_from(CHANNELS),
                              "compress": st.booleans()}, seed + 5, max(50, n // 4))
    hard = st.sampled_from(["\\", "`", '"', "\n", "'", "\\\\", "\\`", "\\n", "`\\"])

    def mix(alphabet):
        return st.lists(st.one_of(st.sampled_from(alphabet), st.sampled_from(alphabet), hard), max_size=40).map("".join)

    def t_raw(s, ch):
        _do(rec, s, ch, False, "random-codepage")

    campaign.hyp_run(t_raw, {"s": mix(list(CP)), "ch": st.sampled_from(CHANNELS)}, seed, n)

    def t_ascii(s, ch, compress):
        _do(rec, s, ch, compress, "random-ascii")
        if len(rec.samples) < 5 and len(s) > 10:
            rec.sample({"s": s, "quoted": my_quote(s), "channel": ch, "compress": compress})

    campaign.hyp_run(t_ascii, {"s": mix(list(ASCII_CP)), "ch": st.sampled_from(CHANNELS), "compress": st.booleans()}, seed + 1, n)


def run(rec, tier, seed):
    ns = campaign.NCPU
    campaign.parallel(rec, _shard_exh, [(s, ns) for s in range(ns)])
    rec.exhaustive.append("strings of length<=3 over {\\ ` \" ' newline a n x 0 λ} in every channel")
    campaign.parallel(rec, _shard_cp2, [(s, ns * 2) for s in range(ns * 2)])
    rec.exhaustive.append("all 65 536 strings of two code-page characters (direct channel, compression off)")
    for L in ((4,) if tier == "quick" else (4, 5)):
        campaign.parallel(rec, _shard_syn, [(s, ns * 2, L) for s in range(ns * 2)])
        rec.exhaustive.append(f"strings of length {L} over the {len(SYN_ALPHABET)} structure / comment characters (direct channel; q-run with compression for ASCII ones)")
    n = 1000 if tier == "quick" else 15000
    campaign.parallel(rec, _shard_hyp, [(seed * 1000 + i, n) for i in range(ns)])


def replay(case):
    if case.get("channel") not in CHANNELS or not isinstance(case.get("s"), str):
        return None
    if case["compress"] and not all(c in ASCII_CP for c in case["s"]):
        return None
    if not all(c in CP for c in case["s"]):
        return None
    return check(case["s"], case["channel"], bool(case["compress"]), bool(case.get("prime")))
