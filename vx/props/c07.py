"""C07 - rational arithmetic is exact and stays inside the number types.

Domains
  exhaustive  all ordered pairs of reduced p/q, |p|<=12, q<=6, x  + - * / % ḭ
  sampled     |p|<=10^6, q<=10^4 and integers to 10^30 (Hypothesis)
  trees       random expression trees of depth<=5 over + - * / rendered as a
              postfix Vyxal *program* (literals, N, / and the element templates
              are all on the path), evaluated with fractions.Fraction
  identity    a / b * b == a  for b != 0
Oracle: result type in {int, sympy Integer, sympy Rational} and
Fraction(result) == expected, exactly.  x/0 := 0 and x ḭ 0 := 0 (as the
property states); modulo by zero is not claimed (an exception there is a
rejection, not a violation).
"""
from __future__ import annotations

import math
from fractions import Fraction

import sympy
from hypothesis import strategies as st

from vx import campaign, harness

RULE = ("pairs enumerated exhaustively over small reduced rationals plus Hypothesis-generated operands and "
        "expression trees; non-trivial = an operand or the result is a non-integer (trees: >=2 operators and "
        "a non-integer intermediate); distinct by (operator, operands) / program text")
ASSUMPTIONS = [
    "fractions.Fraction arithmetic is the reference; a % b follows the floored convention a - b*floor(a/b)",
    "operands reach the element as int or sympy.Rational, the two exact number representations the interpreter uses",
]

OPS = ["+", "-", "*", "/", "%", "ḭ"]
_CODE = {}


def _code(op):
    c = _CODE.get(op)
    if c is None:
        c = _CODE[op] = harness.transpile(op)
    return c


def mk(fr: Fraction, rep="int"):
    """rep: how an integer is represented: 'int' (what arithmetic returns) or 'sympy' (what a literal pushes)."""
    if fr.denominator == 1:
        return int(fr) if rep == "int" else sympy.Integer(int(fr))
    return sympy.Rational(fr.numerator, fr.denominator)


def ref(op, a: Fraction, b: Fraction):
    if op == "+":
        return a + b
    if op == "-":
        return a - b
    if op == "*":
        return a * b
    if op == "/":
        return Fraction(0) if b == 0 else a / b
    if op == "ḭ":
        return Fraction(0) if b == 0 else Fraction(math.floor(a / b))
    if op == "%":
        if b == 0:
            return None
        return a - b * math.floor(a / b)
    raise ValueError(op)


def check_pair(op, a: Fraction, b: Fraction, rep="int"):
    want = ref(op, a, b)
    harness.reset_globals()
    stack = [mk(a, rep), mk(b, rep)]
    r = harness.exec_py(_code(op), stack, harness.fresh_ctx(), budget=300_000)
    if r.exc is not None:
        if want is None:
            return None
        return (f"C07:{op}:raises:{type(r.exc).__name__}", f"{a} {b} {op} raised {type(r.exc).__name__}: {r.exc}")
    if want is None:
        return None
    if len(stack) != 1:
        return (f"C07:{op}:stack", f"{a} {b} {op} left {len(stack)} values")
    got = harness.exact_number(stack[0])
    if got is None:
        return (f"C07:{op}:type:{type(stack[0]).__name__}",
                f"{a} {b} {op} pushed {stack[0]!r} of type {type(stack[0]).__name__}; expected the exact number {want}")
    if got != want:
        return (f"C07:{op}:value", f"{a} {b} {op} pushed {got}, expected exactly {want}")
    return None


def _fr(case_v):
    return Fraction(case_v[0], case_v[1])


def _pair_case(op, a, b):
    return {"kind": "pair", "op": op, "a": [a.numerator, a.denominator], "b": [b.numerator, b.denominator]}


def _do_pair(rec, op, a, b, cls):
    if a.denominator == 1 or b.denominator == 1:
        r2 = check_pair(op, a, b, "sympy")
        rec.case(key=(op, str(a), str(b), "sympy"), nontrivial=a.denominator != 1 or b.denominator != 1, cls=[cls, f"op{op}", "integers as sympy.Integer"])
        if r2:
            rec.fail(r2[0] + ":sympy-integer-operand", dict(_pair_case(op, a, b), rep="sympy"), r2[1] + " [integer operands given as sympy.Integer, which is what a literal pushes]")
    r = check_pair(op, a, b)
    want = ref(op, a, b)
    nt = a.denominator != 1 or b.denominator != 1 or (want is not None and want.denominator != 1)
    rec.case(key=(op, str(a), str(b)), nontrivial=nt, cls=[cls, f"op{op}"])
    if r:
        rec.fail(r[0], _pair_case(op, a, b), r[1])


def small_rationals(pmax=12, qmax=6):
    out = []
    for q in range(1, qmax + 1):
        for p in range(-pmax, pmax + 1):
            if math.gcd(p, q) == 1 or (p == 0 and q == 1):
                if p == 0 and q != 1:
                    continue
                out.append(Fraction(p, q))
    return sorted(set(out))


def _shard_exh(rec, arg):
    shard, nshards, pmax, qmax = arg
    rs = small_rationals(pmax, qmax)
    i = 0
    for a in rs:
        for b in rs:
            i += 1
            if i % nshards != shard:
                continue
            for op in OPS:
                _do_pair(rec, op, a, b, "exhaustive-pair")
    if shard == 0:
        rec.sample({"op": "/", "a": "7/3", "b": "-5/6", "expected": str(ref("/", Fraction(7, 3), Fraction(-5, 6)))})
        rec.notes["n_small_rationals"] = len(rs)


# ---- expression trees ------------------------------------------------------
def _leaf():
    ints = st.integers(-30, 30).map(lambda n: ("n", n, 1))
    big = st.integers(-10 ** 6, 10 ** 6).map(lambda n: ("n", n, 1))
    rat = st.tuples(st.integers(-40, 40), st.integers(1, 12)).map(lambda t: ("n", t[0], t[1]))
    dec = st.tuples(st.integers(0, 999), st.integers(0, 999)).map(lambda t: ("d", f"{t[0]}.{t[1]:03d}"))
    return st.one_of(ints, ints, rat, big, dec)


def _tree():
    return st.recursive(
        _leaf(),
        lambda ch: st.tuples(st.sampled_from(["+", "-", "*", "/", "+", "-", "*", "/", "%", "ḭ"]), ch, ch).map(lambda t: ("o", t[0], t[1], t[2])),
        max_leaves=12,
    )


def _lit_int(n):
    return str(n) if n >= 0 else f"{-n}N"


def render(t) -> str:
    if t[0] == "n":
        p, q = t[1], t[2]
        return _lit_int(p) if q == 1 else f"{_lit_int(p)} {q}/"
    if t[0] == "d":
        return t[1]
    return f"{render(t[2])} {render(t[3])}{t[1]}"


def evaluate(t):
    """-> (value, n_ops, saw_noninteger)"""
    if t[0] == "n":
        v = Fraction(t[1], t[2])
        return v, (0 if t[2] == 1 else 1), v.denominator != 1
    if t[0] == "d":
        v = Fraction(t[1])
        return v, 0, v.denominator != 1
    a, na, fa = evaluate(t[2])
    b, nb, fb = evaluate(t[3])
    v = ref(t[1], a, b)
    if v is None:
        raise ZeroDivisionError("modulo by zero is not claimed")
    return v, na + nb + 1, fa or fb or v.denominator != 1


def _tolist(t):
    return [_tolist(x) if isinstance(x, tuple) else x for x in t]


def _totuple(t):
    t = tuple(_totuple(x) if isinstance(x, list) else x for x in t)
    if t[0] == "n":
        assert isinstance(t[1], int) and isinstance(t[2], int) and t[2] >= 1 and len(t) == 3
    elif t[0] == "d":
        Fraction(t[1])
        assert len(t) == 2 and t[1][0].isdigit() and "." in t[1]
    else:
        assert t[0] == "o" and t[1] in ("+", "-", "*", "/", "%", "ḭ") and len(t) == 4
    return t


def depth(t):
    return 0 if t[0] != "o" else 1 + max(depth(t[2]), depth(t[3]))


def check_program(text: str, want: Fraction):
    r = harness.run_program(text, budget=2_000_000)
    if r.exc is not None:
        return (f"C07:tree:raises:{type(r.exc).__name__}", f"program {text!r} raised {type(r.exc).__name__}: {r.exc}")
    if len(r.stack) != 1:
        return ("C07:tree:stack", f"program {text!r} left {len(r.stack)} values")
    got = harness.exact_number(r.stack[0])
    if got is None:
        return (f"C07:tree:type:{type(r.stack[0]).__name__}",
                f"program {text!r} pushed {r.stack[0]!r} ({type(r.stack[0]).__name__}); expected exactly {want}")
    if got != want:
        return ("C07:tree:value", f"program {text!r} pushed {got}, expected exactly {want}")
    return None


def _shard_hyp(rec, arg):
    seed, n = arg

    def t_tree(t):
        if depth(t) > 5:
            rec.discard("tree-too-deep")
            return
        try:
            want, nops, nonint = evaluate(t)
        except ZeroDivisionError:
            rec.discard("modulo-by-zero-in-tree")
            return
        text = render(t)
        r = check_program(text, want)
        rec.case(key=text, nontrivial=nops >= 2 and nonint, cls=["tree", f"tree-depth{depth(t)}"])
        if len(rec.samples) < 4 and nops >= 3:
            rec.sample({"program": text, "expected": str(want)})
        if r:
            rec.fail(r[0], {"kind": "tree", "tree": _tolist(t)}, r[1])

    campaign.hyp_run(t_tree, {"t": _tree()}, seed, n)

    rat = st.one_of(
        st.tuples(st.integers(-10 ** 6, 10 ** 6), st.integers(1, 10 ** 4)),
        st.tuples(st.integers(-10 ** 30, 10 ** 30), st.just(1)),
        st.tuples(st.integers(-50, 50), st.integers(1, 50)),
        # within 1e-11 .. 1e-25 of a whole number but not whole (a tolerance-based "clean-up" would snap these),
        # and huge numerators over huge denominators (a/b with a = k*b + d)
        st.tuples(st.integers(-100, 100), st.integers(11, 25), st.sampled_from([-1, 1, 2, -3])).map(lambda t: (t[0] * 10 ** t[1] + t[2], 10 ** t[1])),
        st.tuples(st.integers(-100, 100), st.integers(10 ** 10, 10 ** 14), st.sampled_from([-1, 1])).map(lambda t: (t[0] * t[1] + t[2], 1)),
    ).map(lambda t: Fraction(t[0], t[1]))

    def t_pair(op, a, b):
        _do_pair(rec, op, a, b, "sampled-pair")

    campaign.hyp_run(t_pair, {"op": st.sampled_from(OPS), "a": rat, "b": rat}, seed + 3, n)

    def t_ident(a, b):
        if b == 0:
            return
        harness.reset_globals()
        stack = [mk(b), mk(a), mk(b)]
        r = harness.exec_py(_code("/") + "\n" + _code("*"), stack, harness.fresh_ctx(), budget=300_000)
        rec.case(key=("ident", str(a), str(b)), nontrivial=(a / b).denominator != 1, cls="identity a/b*b")
        case = {"kind": "ident", "a": [a.numerator, a.denominator], "b": [b.numerator, b.denominator]}
        if r.exc is not None:
            rec.fail(f"C07:ident:raises:{type(r.exc).__name__}", case, f"{a} {b} / {b} * raised {r.exc!r}")
        elif harness.exact_number(stack[-1]) != a:
            rec.fail("C07:ident:value", case, f"({a}) / ({b}) * ({b}) gave {stack[-1]!r}, expected exactly {a}")

    campaign.hyp_run(t_ident, {"a": rat, "b": rat}, seed + 5, n)


def run(rec, tier, seed):
    quick = tier == "quick"
    ns = campaign.NCPU
    campaign.parallel(rec, _shard_exh, [(s, ns, 12, 6) for s in range(ns)])
    rec.exhaustive.append("all ordered pairs of reduced p/q with |p|<=12, q<=6 under + - * / % ḭ")
    n = 400 if quick else 12000
    campaign.parallel(rec, _shard_hyp, [(seed * 1000 + i, n) for i in range(ns)])


def replay(case):
    k = case.get("kind")
    if k == "pair":
        try:
            r = check_pair(case["op"], _fr(case["a"]), _fr(case["b"]), "sympy" if case.get("rep") == "sympy" else "int")
            return (r[0] + ":sympy-integer-operand", r[1]) if (r and case.get("rep") == "sympy") else r
        except ZeroDivisionError:
            return None
    if k == "tree":
        t = _totuple(case["tree"])
        if depth(t) > 5:
            return None
        try:
            want, _, _ = evaluate(t)
        except ZeroDivisionError:
            return None
        return check_program(render(t), want)
    if k == "ident":
        a, b = _fr(case["a"]), _fr(case["b"])
        if b == 0:
            return None
        harness.reset_globals()
        stack = [mk(b), mk(a), mk(b)]
        r = harness.exec_py(_code("/") + "\n" + _code("*"), stack, harness.fresh_ctx(), budget=300_000)
        if r.exc is not None:
            return (f"C07:ident:raises:{type(r.exc).__name__}", repr(r.exc))
        if harness.exact_number(stack[-1]) != a:
            return ("C07:ident:value", f"({a}) / ({b}) * ({b}) gave {stack[-1]!r}, expected exactly {a}")
        return None
    return None
