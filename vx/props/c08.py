"""C08 - vectorising elements act element-wise.

Table (computed at run time from documents/knowledge/elements.yaml and the
element table, printed in the evidence): documented `vectorise: true`, present
in the element table, no documented overload that takes a list / function / `any`
(those consume the list; ≤ ≥ are kept, they are the `any-any` spelling of the
comparisons), deterministic and free of side effects.
Oracle (metamorphic): norm(E(args)) == expected(args) where expected recurses:
all scalars -> E itself; monad over list -> map; list-scalar / scalar-list ->
pair the scalar with every item; list-list -> position-wise with the shorter
side padded with 0 (the documented zip fill).  If any item-wise application
raises the case is discarded; if they all succeed and the vectorised call
raises or differs, that is a failure.
"""
from __future__ import annotations

import sympy
from hypothesis import strategies as st

from vx import campaign, harness, yamlmini
from vx.harness import LazyList, norm

RULE = ("for every element of the run-time table, Hypothesis-generated argument shapes (list-scalar, scalar-list, "
        "list-list equal/unequal, monad over list; flat and nested; eager, lazy and mixed); non-trivial = a list of "
        "length >= 2 or a nested list and no discard; distinct by (element, arguments, eager/lazy)")
ASSUMPTIONS = [
    "the scalar behaviour of each element is taken from the element itself: only the lifting over lists is checked",
    "argument kinds per position follow the documented overload keys (num / str)",
    "E is exercised with numbers only (its string overload evaluates text)",
]

EXCLUDE = {
    "Ė": "string overload executes a program on the stack (side effects)",
    "•": "documented lst-lst overload (mold) consumes lists",
}
FORCE_NUM_ONLY = {"Ḋ": "its string overloads push a variable number of copies onto the stack (documented), which is not a lifting", "%": "the str-lst overload is a formatter, not a lifting", "E": "string overload evaluates text",
                  "ƈ": "string overloads are random choices", "Ǎ": None, "∆q": "strings are parsed as polynomials (slow, sympy)",
                  "∆Q": "strings are parsed as polynomials (slow, sympy)", "e": "str-str overload is a regex search"}
KEEP_ANY = {"≤", "≥", "øb", "øB", "øḃ", "øḂ", "ḃ", "ċ"}
# monads documented as `any` that treat numbers and strings alike as scalars (their yaml tests vectorise over lists)
ALSO_WITHOUT_FUNCTIONS = {"r"}
ANY_IS_SCALAR = {"øb", "øB", "øḃ", "øḂ", "ḃ", "ċ"}
_TABLE = None


def table():
    """-> list of (key, arity, [allowed kinds per position])"""
    global _TABLE
    if _TABLE is not None:
        return _TABLE
    els = harness.vyxal.elements.elements
    out, skipped = [], {}
    for e in yamlmini.load(repo=harness.REPO):
        if e["kind"] != "element" or e.get("vectorise") is not True:
            continue
        k = e["key"]
        if k not in els:
            skipped[k] = "documented but not in the element table"
            continue
        ar = els[k][1]
        ovs = [o.split("-") for o in e.get("overloads", {})]
        types = {t for o in ovs for t in o}
        if k in ALSO_WITHOUT_FUNCTIONS:
            # documented vectorising; its function overload is never reached with number / string arguments
            ovs = [o for o in ovs if "fun" not in o]
            types = {t for o in ovs for t in o}
        if "lst" in types or "fun" in types or ("any" in types and k not in KEEP_ANY):
            skipped[k] = "an overload takes a list / function / any"
            continue
        if k in ("Ė", "•"):
            skipped[k] = EXCLUDE[k]
            continue
        if ar not in (1, 2):
            skipped[k] = f"arity {ar}"
            continue
        kinds = []
        for pos in range(ar):
            ks = set()
            for o in ovs:
                if len(o) == ar:
                    t = o[pos]
                    ks.add("str" if t in ("str", "string") else "num" if t == "num" else "any")
            if k in ANY_IS_SCALAR:
                ks = {"num", "str"}
            elif not ks or "any" in ks:
                ks = {"num"}
            if k in FORCE_NUM_ONLY and FORCE_NUM_ONLY[k] is not None:
                ks = {"num"}
            kinds.append(sorted(ks))
        out.append((k, ar, kinds))
    _TABLE = (out, skipped)
    return _TABLE


_CODE = {}


def run_el(op, args):
    c = _CODE.get(op)
    if c is None:
        c = _CODE[op] = harness.transpile(op)
    harness.reset_globals()
    stack = list(args)
    r = harness.exec_py(c, stack, harness.fresh_ctx(), budget=3_000_000, wall=20)
    if r.exc is not None:
        raise r.exc
    return stack


class Discard(Exception):
    pass


def _canon(x, _d=0):
    """The interpreter's own representation normaliser (vyxalify: float -> exact rational, ...) applied to every
    scalar of a result, at any depth.  Both sides of the comparison go through it, so that whether an implementation
    normalises items while vectorising (the pinned tree does, through LazyList) or leaves that to later is not an issue;
    a Python bool is left alone (see scalar_result)."""
    if isinstance(x, (list, harness.LazyList)) and _d < 40:
        out = []
        for i, y in enumerate(x):
            out.append(_canon(y, _d + 1))
            if i > 3000:
                break
        return out
    if isinstance(x, bool):
        return x
    try:
        return harness.vyxal.helpers.vyxalify(x)
    except Exception:  # noqa: BLE001
        return x


def is_list(spec):
    return isinstance(spec, (list, tuple)) and spec and spec[0] in ("l", "z")


def items(spec):
    return list(spec[1])


def scalar_result(op, specs):
    """E on scalars, normalised: the whole resulting stack."""
    try:
        st_ = run_el(op, [harness.build_value(s) for s in specs])
        # items of a vectorised result always pass through vyxalify (LazyList does it per item),
        # which is the interpreter's own representation normaliser (float -> exact rational etc.)
        # (a Python bool is not a Vyxal value: vyxalify would turn it into the string "True"; leave it, so that an
        #  element whose scalar result is a bool does not agree with its vectorised "True" by accident)
        return [norm(x if isinstance(x, bool) else harness.vyxal.helpers.vyxalify(x), cap=2000) for x in st_]
    except (harness.FuelExhausted, harness.Inconclusive):
        raise Discard("item-wise application ran out of budget")
    except Exception as e:  # noqa: BLE001
        raise Discard(f"item-wise application raised {type(e).__name__}")


def expected(op, specs):
    """Recursive definition of the lifting; returns the *value* (single result)."""
    if not any(is_list(s) for s in specs):
        res = scalar_result(op, specs)
        if len(res) != 1:
            raise Discard("element pushes several values")
        return res[0]
    if len(specs) == 1:
        return [expected(op, [x]) for x in items(specs[0])]
    a, b = specs
    if is_list(a) and is_list(b):
        xa, xb = items(a), items(b)
        n = max(len(xa), len(xb))
        xa = xa + [0] * (n - len(xa))
        xb = xb + [0] * (n - len(xb))
        return [expected(op, [x, y]) for x, y in zip(xa, xb)]
    if is_list(a):
        return [expected(op, [x, b]) for x in items(a)]
    return [expected(op, [a, y]) for y in items(b)]


def shape_of(specs):
    def d(s):
        return 0 if not is_list(s) else 1 + max([d(x) for x in items(s)] or [0])

    parts = []
    for s in specs:
        parts.append("S" if not is_list(s) else ("L" if d(s) == 1 else "N"))
    sh = "-".join(parts)
    if len(specs) == 2 and is_list(specs[0]) and is_list(specs[1]):
        sh += "(eq)" if len(items(specs[0])) == len(items(specs[1])) else "(uneq)"
    return sh


def laziness(specs):
    def has(s, tag):
        return is_list(s) and (s[0] == tag or any(has(x, tag) for x in items(s)))

    z = any(has(s, "z") for s in specs)
    l_ = any(has(s, "l") for s in specs)
    return "lazy" if z and not l_ else "mixed" if z else "eager"


def check(op, specs, alias=0):
    """alias (dyads, both lists): 1 = the very same object is passed as both operands,
    2 = the second operand is a deep_copy of the first (what `:` leaves on the stack),
    3/4 = the first operand is a lazy list and the second is Ṙ / Ḣ of that very object, 5/6 = the same with the sides swapped.
    -> ('discard', reason) | None | (sig, msg)"""
    view = None
    if alias and len(specs) == 2 and is_list(specs[0]):
        if alias in (1, 2):
            specs = [specs[0], specs[0]]
        else:
            # 3..6: one operand is a lazy list object, the other a lazy view of that very object
            # (its reverse / its tail, made by the interpreter's own Ṙ / Ḣ), on either side
            base = ("z", items(specs[0]))
            view = "Ṙ" if alias in (3, 5) else "Ḣ"
            derived = ("l", items(base)[::-1] if view == "Ṙ" else items(base)[1:])
            specs = [base, derived] if alias in (3, 4) else [derived, base]
    else:
        alias = 0
    try:
        want = expected(op, specs)
    except Discard as d:
        return ("discard", str(d))
    tag = f"{shape_of(specs)}:{laziness(specs)}" + (":same-object" if alias == 1 else ":copy-of-lhs" if alias == 2 else
                                                   f":view-{view}-of-{'lhs' if alias in (3, 4) else 'rhs'}" if alias else "")
    try:
        vals = [harness.build_value(s) for s in specs]
        if alias == 1:
            vals[1] = vals[0]
        elif alias == 2:
            vals[1] = harness.vyxal.helpers.deep_copy(vals[0])
        elif alias:
            b = 0 if alias in (3, 4) else 1
            try:
                made = run_el(view, [vals[b]])
            except Exception:  # noqa: BLE001
                return ("discard", "making the view raised")
            if len(made) != 1:
                return ("discard", "making the view")
            vals[1 - b] = made[0]
        st_ = run_el(op, vals)
        got = [norm(_canon(x), cap=2000) for x in st_]
    except (harness.FuelExhausted, harness.Inconclusive):
        return ("discard", "vectorised call ran out of budget")
    except Exception as e:  # noqa: BLE001
        return (f"C08:{op}:{tag}:raises:{type(e).__name__}",
                f"{op} on {specs!r}: every item-wise application succeeds but the vectorised call raised {type(e).__name__}: {e}")
    if len(got) != 1 or got[0] != want:
        return (f"C08:{op}:{tag}:value", f"{op} on {specs!r} = {harness.jsonable(got)!r:.300}; item-wise application gives {harness.jsonable(want)!r:.300}")
    return None


# ---- generators -------------------------------------------------------------
def scalar_st(kinds):
    opts = []
    if "num" in kinds:
        opts += [st.integers(-5, 12), st.integers(0, 6),
                 st.tuples(st.integers(-9, 9), st.integers(2, 5)).map(lambda t: ("q", t[0], t[1]))]
    if "str" in kinds:
        opts += [st.text("ab1 Z", max_size=3).map(lambda s: ("s", s))]
    return st.one_of(*opts)


def list_st(kinds, depth):
    sc = scalar_st(kinds)
    node = sc
    for _ in range(depth):
        inner = node
        lst = st.tuples(st.sampled_from(["l", "l", "z"]), st.lists(inner, max_size=5), st.integers(0, 3)).map(
            lambda t: (t[0], t[1]) if t[0] == "l" else ("z", t[1], t[2]))
        node = st.one_of(sc, lst, lst)
    # force a list at top level
    return st.tuples(st.sampled_from(["l", "l", "z"]), st.lists(node, max_size=5), st.integers(0, 3)).map(
        lambda t: (t[0], t[1]) if t[0] == "l" else ("z", t[1], t[2]))


def args_st(ar, kinds):
    if ar == 1:
        return st.tuples(st.one_of(list_st(kinds[0], 1), list_st(kinds[0], 2)))
    L0, L1 = st.one_of(list_st(kinds[0], 1), list_st(kinds[0], 1), list_st(kinds[0], 2)), st.one_of(list_st(kinds[1], 1), list_st(kinds[1], 1), list_st(kinds[1], 2))
    return st.one_of(
        st.tuples(L0, scalar_st(kinds[1])),
        st.tuples(scalar_st(kinds[0]), L1),
        st.tuples(L0, L1),
        st.tuples(L0, L1),
    )


def _tolist(x):
    return [_tolist(y) for y in x] if isinstance(x, (tuple, list)) else x


def _nontrivial(specs):
    def big(s):
        return is_list(s) and (len(items(s)) >= 2 or any(is_list(x) for x in items(s)))

    return any(big(s) for s in specs)


def _shard(rec, arg):
    seed, entries, n = arg
    for (op, ar, kinds) in entries:
        _one(rec, op, ar, kinds, seed, n)


def _one(rec, op, ar, kinds, seed, n):
    if True:
        def t(args, alias):
            specs = list(args)
            if not (alias and len(specs) == 2 and is_list(specs[0])):
                alias = 0
            else:
                specs = [specs[0], specs[0]]
            r = check(op, specs, alias)
            if r and r[0] == "discard":
                rec.discard(r[1])
                rec.classes[f"discarded {op}"] += 1
                return
            rec.case(key=(op, repr(specs), alias), nontrivial=_nontrivial(specs),
                     cls=[f"el {op}", "shape " + shape_of(specs), laziness(specs)] + (["aliased operands"] if alias in (1, 2) else ["one operand is a lazy view of the other"] if alias else []))
            if r:
                rec.fail(r[0], {"op": op, "specs": _tolist(specs), "alias": alias}, r[1])
            elif len(rec.samples) < 3 and _nontrivial(specs) and len(specs) == 2:
                rec.sample({"element": op, "args": _tolist(specs)})

        campaign.hyp_run(t, {"args": args_st(ar, kinds), "alias": st.sampled_from([0, 0, 0, 0, 1, 2, 3, 4, 5, 6])}, seed + sum(map(ord, op)), n)


def run(rec, tier, seed):
    quick = tier == "quick"
    tab, skipped = table()
    if len(tab) < 60:
        raise campaign.HarnessError(f"vectorising table has only {len(tab)} entries")
    rec.notes["table"] = [k for k, _, _ in tab]
    rec.notes["table_size"] = len(tab)
    rec.notes["skipped"] = skipped
    n = 60 if quick else 1500
    ns = campaign.NCPU * 2
    jobs = [(seed * 1000, tab[i::ns], n) for i in range(ns)]
    campaign.parallel(rec, _shard, jobs)


def _totuple(x):
    if isinstance(x, list):
        if x and x[0] in ("l", "z") and len(x) >= 2 and isinstance(x[1], list):
            return (x[0], [_totuple(y) for y in x[1]]) + tuple(x[2:3])
        if x and x[0] == "s" and len(x) == 2 and isinstance(x[1], str):
            return ("s", x[1])
        if x and x[0] == "q" and len(x) == 3 and all(isinstance(v, int) for v in x[1:]) and x[2] > 0:
            return ("q", x[1], x[2])
        raise ValueError(x)
    if isinstance(x, int) and not isinstance(x, bool):
        return x
    raise ValueError(x)


def replay(case):
    tab, _ = table()
    ops = {k: (ar, kinds) for k, ar, kinds in tab}
    op = case.get("op")
    if op not in ops:
        return None
    specs = [_totuple(s) for s in case["specs"]]
    if len(specs) != ops[op][0] or not any(is_list(s) for s in specs):
        return None
    r = check(op, specs, case.get("alias", 0) if case.get("alias", 0) in (0, 1, 2, 3, 4, 5, 6) else 0)
    if r and r[0] == "discard":
        return None
    return r
