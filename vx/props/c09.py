"""C09 - an element touches only the stack entries it consumes.

For every key of the element table, and for every modifier applied to every
element, the template is executed on  sentinels + args  where args are exactly
the k entries the construct is entitled to consume (the table arity; for
modifiers the documented consumption derived from the operand arities) and
sentinels are three distinct objects (an eager list, a lazy list, a big int),
0/2/5 padding entries and two entries pushed by the interpreter's own ¾ and ¥.
Afterwards the stack must be the same list object, still hold the three
sentinel objects (identity) at positions 0..2, and their values must be
unchanged.  Exceptions discard the case.  The documented whole-stack
operations are exempt (listed in the evidence).
"""
from __future__ import annotations

from hypothesis import strategies as st

from vx import campaign, elemargs, harness, progs
from vx.harness import LazyList, norm

RULE = ("every element key and every modifier x element, with Hypothesis-generated type-directed argument tuples on "
        "top of a sentinel prefix; non-trivial = the construct completed on arguments matching a documented overload; "
        "distinct by (construct, arguments)")
ASSUMPTIONS = [
    "an element is entitled to its table arity; a modifier to the consumption documented in its template "
    "(v & ~: operand arity; ₌ ₍: the second operand's arity is consumed, arguments only the first operand needs may be read but must stay in place; ƒ ɖ: 1; ß: 1 + operand arity; ⁽ ‡ ≬: 0)",
    "only 'entries below the top k are untouched' is asserted, not the number of results",
]

EXEMPT = {
    "W": "wrap: documented whole-stack operation", "^": "reverse stack", "!": "stack length", "„": "rotate stack left",
    "‟": "rotate stack right", "Ȯ": "over", "†": "call: runs a function on the stack", "¨ẇ": "variable-arity wrap",
    "Ė": "string overload executes an arbitrary program on the stack", "Q": "exits the interpreter",
    "¨U": "network request", "x": "recursion",
}
MODS = list(progs.MOD_ARITY)
SENT_VALUES = ([101, 102], [103, 104], 10 ** 20 + 7)


def arity_of(key):
    return harness.vyxal.elements.elements[key][1]


def entitled(mod, keys):
    ars = [arity_of(k) for k in keys]
    if mod in ("v", "&", "~"):
        return ars[0]
    if mod in ("₌", "₍"):
        return max(ars)
    if mod in ("ƒ", "ɖ"):
        return 1
    if mod == "ß":
        return 1 + ars[0]
    return 0


def _types(specs):
    def ty(s):
        if isinstance(s, int):
            return "num"
        return {"q": "num", "s": "str", "l": "lst", "z": "lst", "f": "fun"}[s[0]]

    return "-".join(ty(s) for s in specs) or "none"


_CODE = {}


def _code(text):
    c = _CODE.get(text)
    if c is None:
        c = _CODE[text] = harness.transpile(text)
    return c


def check(text, specs, protected_extra=0, force_alias=False):
    """protected_extra: how many of the generated arguments (the lowest ones) the construct may only
    read, not remove or reorder (₌ / ₍ : the first operand works on a copy of the stack).
    -> ('discard', why) | None | (sig, msg)"""
    harness.reset_globals()
    ctx = harness.fresh_ctx()
    s0 = list(SENT_VALUES[0])
    s1 = LazyList(iter(list(SENT_VALUES[1])))
    s2 = SENT_VALUES[2] + 0  # a distinct int object
    sent = [s0, s1, s2]
    # 0, 2 or 5 further protected entries, so that behaviour depending on the depth of the stack is exercised
    pad = (0, 2, 5)[(len(text) + len(repr(specs))) % 3]
    sent += [[900 + i] for i in range(pad)]
    try:
        args = [elemargs.build(s, ctx) for s in specs]
    except Exception as e:  # noqa: BLE001
        return ("discard", f"building arguments: {e!r}")
    # one protected entry that is the very object of a list argument (what `¥ ¥` or `←a ←a` leave on the stack):
    # the entry below must keep its identity and its value even though the element also gets it as an argument
    alias_i = None
    copy_of = None
    sel = 2 if force_alias else sum(map(ord, text + repr(specs)))   # deterministic choice per case: 2 of 3 cases get the alias entry
    for i_, s_ in enumerate(specs):
        if isinstance(s_, tuple) and s_ and s_[0] in ("l", "z") and not elemargs.has_function(s_) and sel % 3 != 0:
            alias_i = i_
            sent.append(args[i_])
            if isinstance(args[i_], LazyList) and sel % 2 == 0:
                # and a partly read COPY of that argument (what `:` leaves): the copy's reader is suspended inside the
                # original's cached prefix while the element works on the original
                try:
                    if args[i_].has_ind(0):
                        copy_of = harness.vyxal.helpers.deep_copy(args[i_])
                        copy_of.has_ind(0)
                        sent.append(copy_of)
                except Exception:  # noqa: BLE001
                    copy_of = None
            break
    # two protected entries made by the interpreter itself: what ¾ and ¥ push for a non-empty global array / register
    stack = sent
    ctx.stacks.append(stack)
    ctx.global_array = [11, [12]]
    ctx.register = [21, 22]
    r0 = harness.exec_py(_code("¾¥"), stack, ctx, budget=50_000, wall=5)
    if r0.exc is not None or len(stack) != 5 + pad + (alias_i is not None) + (copy_of is not None):
        return ("discard", "retrieval sentinels")
    sent = list(stack)
    nsent = len(sent)
    stack.extend(args)
    r = harness.exec_py(_code(text), stack, ctx, budget=1_500_000, wall=15)
    if r.exc is not None:
        return ("discard", type(r.exc).__name__)
    what = None
    if r.ns.get("stack") is not stack:
        what = "the stack variable was rebound to another list"
    elif len(stack) < nsent:
        what = f"only {len(stack)} of the {nsent} entries below the arguments are left: a protected entry was consumed"
    else:
        for i in range(nsent):
            if stack[i] is not sent[i]:
                what = f"entry {i} (of {nsent}) below the arguments was replaced by {str(stack[i])[:60]!r}"
                break
        if what is None and any(x != [900 + i] for i, x in enumerate(sent[3:3 + pad])):
            what = "a padding entry below the arguments changed its value"
    if what is None:
        for i in range(protected_extra):
            if len(stack) <= nsent + i or stack[nsent + i] is not args[i]:
                what = (f"argument {i}, which the construct only reads (its first operand works on a copy of the stack), "
                        f"was removed or moved: the entry above the sentinels is now {str(stack[nsent + i])[:60] if len(stack) > nsent + i else 'missing'!r}")
                break
    if what is None:
        try:
            vals = (norm(s0), norm(s1), norm(s2))
        except Exception as e:  # noqa: BLE001
            vals = ("raises", repr(e))
        want = tuple(norm(v) for v in SENT_VALUES)
        if vals != want:
            what = f"a value below the arguments changed: {harness.jsonable(list(vals))!r}"
        else:
            try:
                derived = [norm(sent[-2]), norm(sent[-1])]
            except Exception as e:  # noqa: BLE001
                derived = ("raises", repr(e))
            if derived != [norm([11, [12]]), norm([21, 22])]:
                what = ("the entries pushed earlier by ¾ and ¥ (then [11, [12]] and [21, 22]) now denote "
                        f"{harness.jsonable(derived)!r}")
            elif alias_i is not None:
                try:
                    now = norm(sent[3 + pad], cap=3000)
                except Exception as e:  # noqa: BLE001
                    now = ("raises", repr(e))
                if now != elemargs.denotation(specs[alias_i]):
                    what = (f"the protected entry that is the same object as argument {alias_i} denoted "
                            f"{harness.jsonable(elemargs.denotation(specs[alias_i]))!r:.160} before and {harness.jsonable(now)!r:.160} after")
                elif copy_of is not None:
                    try:
                        nowc = norm(copy_of, cap=3000)
                    except Exception as e:  # noqa: BLE001
                        nowc = ("raises", repr(e))
                    if nowc != elemargs.denotation(specs[alias_i]):
                        what = (f"the protected entry that is a partly read copy of argument {alias_i} denoted "
                                f"{harness.jsonable(elemargs.denotation(specs[alias_i]))!r:.160} before and {harness.jsonable(nowc)!r:.160} after")
    if what:
        return (f"C09:{text}:{_types(specs)}", f"{text} on sentinels + {specs!r}: {what}")
    return None


def _do(rec, text, key_for_overloads, specs, cls, protected_extra=0):
    r = check(text, specs, protected_extra)
    if r and r[0] == "discard":
        rec.discard(r[1])
        return
    nt = elemargs.matches_overload(key_for_overloads, specs[-arity_of(key_for_overloads):] if arity_of(key_for_overloads) else [])
    rec.case(key=(text, repr(specs)), nontrivial=nt or arity_of(key_for_overloads) == 0, cls=cls)
    if r:
        rec.fail(r[0], {"text": text, "specs": elemargs.tolist(specs), "protected_extra": protected_extra}, r[1])


def _shard_elements(rec, arg):
    seed, keys, n = arg
    for key in keys:
        _one_element(rec, key, seed, n)


FIXED_LISTS = [("z", [1, 2, 3, 4, 5], 0), ("z", [1, 2, 3, 4, 5], 2), ("l", [1, 2, 3, 4, 5]), ("z", [("l", [1, 2]), ("l", [3])], 1)]
FIXED_SCALARS = [-1, -2, 0, 1, 4, 7, ("s", "ab")]


def _fixed_list_scalar(rec, key):
    """dyads: a (lazy / eager) list that is also referenced below x boundary scalars (negative, zero, past the end), both orders"""
    for lst in FIXED_LISTS:
        for sc in FIXED_SCALARS:
            for specs in ([lst, sc], [sc, lst]):
                r = check(key, specs, force_alias=True)
                if r and r[0] == "discard":
                    rec.discard(r[1])
                    continue
                rec.case(key=(key, repr(specs), "fixed"), nontrivial=True, cls=["element", "fixed list x boundary scalar"])
                if r:
                    rec.fail(r[0], {"text": key, "specs": elemargs.tolist(specs), "protected_extra": 0, "force_alias": True}, r[1])


def _one_element(rec, key, seed, n):
    k = arity_of(key)
    if k == 2 and key not in EXEMPT:
        _fixed_list_scalar(rec, key)

    def t(args):
        _do(rec, key, key, list(args), ["element", f"arity{k}"])

    campaign.hyp_run(t, {"args": elemargs.args_strategy(key, k)}, seed + sum(map(ord, key)), n if k else 1)
    if len(rec.samples) < 2:
        rec.sample({"construct": key, "stack": "sentinels + " + str(k) + " generated arguments"})


def _shard_mods(rec, arg):
    seed, keys, n = arg
    for key in keys:
        for mod in MODS:
            _one_mod(rec, mod, key, seed, n)


def _one_mod(rec, mod, key, seed, n):
    ar = progs.MOD_ARITY[mod]
    others = ["+", "d", "₀"] if sum(map(ord, key)) % 2 else ["₀", "V", "d"]
    operand_sets = [[key] * ar]
    if ar >= 2:
        operand_sets += [[key] + others[: ar - 1], others[: ar - 1] + [key]]
    for ops in operand_sets:
        text = mod + "".join(ops)
        k = entitled(mod, ops)
        main = ops[0]

        def t(args, text=None):
            pass

        extra = (max(arity_of(o) for o in ops) - arity_of(ops[1])) if mod in ("₌", "₍") else 0

        def run_case(args, text=text, main=main, extra=extra):
            _do(rec, text, main, list(args), ["modifier", f"mod {mod}"], extra)

        if mod in ("ƒ", "ɖ"):
            strat = st.tuples(elemargs.LST)
        elif mod == "ß":
            strat = st.tuples(*([st.one_of(elemargs.NUM, elemargs.STR, elemargs.LST)] * arity_of(ops[0]) + [st.integers(0, 1)]))
        elif mod == "~" and arity_of(ops[0]) == 1:
            strat = st.tuples(elemargs.LST)
        elif k == 0:
            strat = st.just(())
        elif mod in ("₌", "₍"):
            strat = elemargs.random_args(k)
        else:
            strat = elemargs.args_strategy(ops[0], k)
        _hyp(run_case, strat, seed + sum(map(ord, text)), n if k else 1)


def _hyp(fn, strat, seed, n):
    def t(args):
        fn(args)

    campaign.hyp_run(t, {"args": strat}, seed, n)


def run(rec, tier, seed):
    quick = tier == "quick"
    keys = [k for k in harness.vyxal.elements.elements if k not in EXEMPT]
    rec.notes["exempt"] = EXEMPT
    rec.notes["elements_checked"] = len(keys)
    ns = campaign.NCPU * 2
    n_el = 40 if quick else 600
    n_mod = 2 if quick else 60
    jobs_el = [(seed * 1000, keys[i::ns], n_el) for i in range(ns)]
    campaign.parallel(rec, _shard_elements, jobs_el)
    jobs_mod = [(seed * 1000 + 1, keys[i::ns], n_mod) for i in range(ns)]
    campaign.parallel(rec, _shard_mods, jobs_mod)
    rec.exhaustive.append("every non-exempt element key, and every modifier x every non-exempt element key, is exercised (arguments are sampled)")


def replay(case):
    text = case.get("text")
    if not isinstance(text, str) or not text:
        return None
    specs = [elemargs.totuple(s) for s in case["specs"]]
    toks = harness.vyxal.lexer.tokenise(text)
    vals = [t.value for t in toks]
    els = harness.vyxal.elements.elements
    if len(vals) == 1 and vals[0] in els and vals[0] not in EXEMPT:
        if len(specs) != arity_of(vals[0]):
            return None
    elif vals and vals[0] in MODS and len(vals) == 1 + progs.MOD_ARITY[vals[0]] and all(v in els and v not in EXEMPT for v in vals[1:]):
        if len(specs) != entitled(vals[0], vals[1:]):
            return None
    else:
        return None
    pe = case.get("protected_extra", 0)
    if not (isinstance(pe, int) and 0 <= pe <= len(specs)):
        return None
    r = check(text, specs, pe, force_alias=bool(case.get("force_alias")))
    if r and r[0] == "discard":
        return None
    return r
