"""C10 - values are immutable: no element changes a value another reference can see.

(a) element tier: every element key is run on arguments built from plain-data
    specs (eager / lazy / partially forced / nested lists, optionally the very
    same object passed twice).  The harness keeps its own references; after the
    call every list argument is forced and compared with the denotation of its
    spec (known without ever observing the object).
(b) copy tier: programs  <value> <copy-op> <up to 3 elements>  where copy-op is
    one of  : D Ḃ →x←x £¥ ⅛¾ ; the elements work on the top copy, the untouched
    copy (stack entry, variable, register, global array) must still denote the
    original value.
Exceptions discard the case (the element rejected the input).
"""
from __future__ import annotations

from hypothesis import strategies as st

from vx import campaign, elemargs, harness
from vx.harness import norm

RULE = ("every element key with Hypothesis-generated argument tuples (element tier) and generated copy programs (copy "
        "tier); non-trivial = some argument is a list and the element completed; distinct by (element or program, arguments)")
ASSUMPTIONS = [
    "the denotation of an argument is computed from its plain-data spec, never from the object under test",
    "function arguments are not compared (only lists, strings and numbers have a denotation here)",
]

SKIP = {"Q": "exits the interpreter", "¨U": "network request", "x": "recursion"}
COPY_OPS = [":", "D", "Ḃ", "→x←x", "£¥", "⅛¾"]
_CODE = {}


def _code(text):
    c = _CODE.get(text)
    if c is None:
        c = _CODE[text] = harness.transpile(text)
    return c


def _is_list(spec):
    return isinstance(spec, tuple) and spec and spec[0] in ("l", "z")


def _types(specs):
    def ty(s):
        if isinstance(s, int):
            return "num"
        return {"q": "num", "s": "str", "l": "lst", "z": "lazy", "f": "fun"}[s[0]]

    return "-".join(ty(s) for s in specs) or "none"


def check_element(key, specs, alias):
    """alias: pass the object of argument 0 also as argument 1 (arity >= 2)."""
    harness.reset_globals()
    ctx = harness.fresh_ctx()
    try:
        args = [elemargs.build(s, ctx) for s in specs]
    except Exception as e:  # noqa: BLE001
        return ("discard", repr(e))
    if alias and len(args) >= 2:
        args[1] = args[0]
        specs = [specs[0], specs[0]] + list(specs[2:])
    stack = list(args)
    ctx.stacks.append(stack)
    r = harness.exec_py(_code(key), stack, ctx, budget=150_000, wall=10)
    if r.exc is not None:
        return ("discard", type(r.exc).__name__)
    _peek(stack)
    for i, (a, s) in enumerate(zip(args, specs)):
        if elemargs.has_function(s):
            continue
        want = elemargs.denotation(s)
        try:
            got = norm(a, cap=3000)
        except Exception as e:  # noqa: BLE001
            got = ("raises", repr(e))
        if got != want:
            return (f"C10:{key}:arg{i}:{_types(specs)}" + (":aliased" if alias else ""),
                    f"{key} on {specs!r}: argument {i} denoted {harness.jsonable(want)!r:.200} before the call and "
                    f"{harness.jsonable(got)!r:.200} after it")
    return None


def _peek(stack):
    """Look at the results the way a user would: pull a few items of every lazy result."""
    import itertools

    for v in list(stack):
        if isinstance(v, harness.LazyList):
            try:
                with harness.watchdog(5), harness.fuel(300_000):
                    for x in itertools.islice(iter(v), 6):
                        if isinstance(x, harness.LazyList):
                            list(itertools.islice(iter(x), 4))
            except BaseException:  # noqa: BLE001  (errors while looking at a result are not this property's business)
                pass


def check_copy(copy_op, spec, elems):
    """stack=[value]; run copy_op then elems; the untouched copy must denote spec."""
    harness.reset_globals()
    ctx = harness.fresh_ctx()
    v = elemargs.build(spec, ctx)
    stack = [v]
    ctx.stacks.append(stack)
    text = copy_op + "".join(elems)
    r0 = harness.exec_py(_code(copy_op), stack, ctx, budget=100_000, wall=10)
    if r0.exc is not None:
        return ("discard", type(r0.exc).__name__)
    kept = list(stack[:-1])  # the copies the elements are not meant to work on (identity kept by the harness)
    r = harness.exec_py(_code("".join(elems)), stack, ctx, budget=400_000, wall=10, ns=r0.ns)
    if r.exc is not None:
        return ("discard", type(r.exc).__name__)
    want = elemargs.denotation(spec)
    _peek([x for x in stack if not any(x is k for k in kept)])
    try:
        if copy_op == ":":
            where, got = "the duplicate left below", norm(kept[0])
        elif copy_op == "D":
            where, got = "the two duplicates left below", [norm(x) for x in kept[:2]]
            want = [want, want]
        elif copy_op == "Ḃ":
            where, got = "the copy left below the reversed value", norm(kept[0])
        elif copy_op == "→x←x":
            where, got = "the variable x", norm(r.ns.get("VAR_x"))
        elif copy_op == "£¥":
            where, got = "the register", norm(ctx.register)
        else:
            where, got = "the global array", norm(ctx.global_array)
            want = [want]
        # the original object the harness kept must be intact as well
        orig = norm(v)
    except Exception as e:  # noqa: BLE001
        where, got, orig = "observing the copy", ("raises", repr(e)), None
    if got != want:
        return (f"C10:copy:{copy_op}:{''.join(elems).replace(' ', '_')}", f"program {text!r} on {spec!r}: {where} now denotes "
                f"{harness.jsonable(got)!r:.200}, expected {harness.jsonable(want)!r:.200}")
    if orig is not None and orig != elemargs.denotation(spec):
        return (f"C10:copy-original:{copy_op}:{''.join(elems).replace(' ', '_')}", f"program {text!r} on {spec!r}: the original object now denotes "
                f"{harness.jsonable(orig)!r:.200}")
    return None


# ---- (c) observation-timing tier ------------------------------------------------
PEEK = "·peek·"   # harness action, not program text: look at the first item of every lazy entry (a partial observation)
TIMING_POOL = ["¾", "¥", "←x", ":", "D", "Ḃ", "⅛", "¼", "£", "→x", "1 9Ȧ", "0 7Ȧ", "Ṙ", "J", "5p", "U", "s", "ė", "K", "¦", "f", "h",
               "t", "Ḣ", "Ṫ", "ṫ", "ḣ", "1+", "d", "›", "1", "2", "w", "$", "_", "z", "ż", "2ẇ", "y", "Y", "Z", "ƛd;", "'2%;", "vd", "1ȯ", "2Ẏ", "L", "∑", "G", "1i", "N", PEEK, PEEK]
_AR_CACHE = {}


def _consumes(tok):
    """How many entries the piece may consume from the stack it finds (its net reach below)."""
    if tok == PEEK:
        return 0
    r = _AR_CACHE.get(tok)
    if r is None:
        structs = harness.vyxal.parse.parse(harness.vyxal.lexer.tokenise(tok))
        depth = need = 0
        els = harness.vyxal.elements.elements
        for st_ in structs:
            name = type(st_).__name__
            if name == "GenericStatement":
                t = st_.branches[0][0]
                if t.name.value == "general":
                    ar = els.get(t.value, ("", 0))[1]
                    push = 3 if t.value == "D" else 2 if t.value in (":", "Ḃ", "$", "ṫ", "ḣ", "y") else 0 if t.value in ("_", "£", "⅛") else 1
                elif t.name.value == "variable_set":
                    ar, push = 1, 0
                else:
                    ar, push = 0, 1
            elif name in ("LambdaMap", "LambdaFilter", "MonadicModifier"):
                ar, push = 1, 1
            else:
                ar, push = 0, 1
            if ar > depth:
                need += ar - depth
                depth = 0
            else:
                depth -= ar
            depth += push
        r = _AR_CACHE[tok] = need
    return r


def _run_prefix(spec, toks, k):
    harness.reset_globals()
    ctx = harness.fresh_ctx()
    if spec[0] == "inf":
        # an infinite list made by the interpreter itself (primes, naturals, ...): two independent instances
        stack = []
        ctx.stacks.append(stack)
        r0 = harness.exec_py(_code(spec[1] + spec[1]), stack, ctx, budget=100_000, wall=10)
        if r0.exc is not None or len(stack) != 2:
            return None
    else:
        stack = [elemargs.build(spec, ctx), elemargs.build(spec, ctx)]
        ctx.stacks.append(stack)
    ns = None
    for tok in toks[:k]:
        if tok == PEEK:
            try:
                with harness.watchdog(5), harness.fuel(100_000):
                    for x in stack:
                        if isinstance(x, harness.LazyList):
                            x.has_ind(0) and x[0]
            except BaseException:  # noqa: BLE001
                return None
            continue
        r = harness.exec_py(_code(tok), stack, ctx, budget=(25_000 if spec[0] == "inf" else 200_000), wall=10, ns=ns)
        if r.exc is not None:
            return None
        ns = r.ns
    return stack, ctx, ns


def _snapshot(stack, ctx, ns, cap=300):
    with harness.watchdog(20), harness.fuel(3_000_000 if cap > 20 else 60_000):
        vals = [norm(x, cap=cap) for x in stack]
        state = {"register": norm(ctx.register, cap=cap), "global_array": norm(ctx.global_array, cap=cap),
                 "x": norm((ns or {}).get("VAR_x", 0), cap=cap)}
    return vals, state


def check_timing(spec, toks):
    """Observing a value early or late must give the same value: for every k, the entries that
    piece k+1 does not consume are compared between 'run k pieces, then look' and 'run k+1 pieces, then look'."""
    prev = None
    for k in range(0, len(toks) + 1):
        run = _run_prefix(spec, toks, k)
        if run is None:
            return ("discard", "raised") if k == 0 or prev is None else None
        try:
            vals, state = _snapshot(*run, cap=(14 if spec[0] == "inf" else 300))
        except BaseException:  # noqa: BLE001  (looking at a value ran out of budget: no claim)
            return None
        if prev is not None:
            pvals, pstate = prev
            tok = toks[k - 1]
            keep = max(0, len(pvals) - _consumes(tok))
            if vals[:keep] != pvals[:keep]:
                i = next(j for j in range(keep) if j >= len(vals) or vals[j] != pvals[j])
                return (f"C10:timing:{tok.replace(' ', '_')}", f"stack=[v,v] with v={spec!r}, program {''.join(t if t != PEEK else "<peek>" for t in toks[:k])!r}: stack entry {i}, which {tok!r} does not consume, "
                        f"denotes {harness.jsonable(pvals[i])!r:.160} when observed before {tok!r} and "
                        f"{harness.jsonable(vals[i] if i < len(vals) else 'nothing')!r:.160} when first observed after it")
            for name, mut in (("register", "£"), ("global_array", "⅛¼"), ("x", "→x")):
                if pstate[name] != state[name] and not any(m in tok for m in (mut if name != "x" else ["→x"])):
                    return (f"C10:timing-state:{name}:{tok}", f"program {''.join(t if t != PEEK else "<peek>" for t in toks[:k])!r} on {spec!r}: {name} changed from "
                            f"{harness.jsonable(pstate[name])!r:.160} to {harness.jsonable(state[name])!r:.160} although {tok!r} does not write it")
        prev = (vals, state)
    return None


STATE_ALPHABET = ["¾", "¥", "←x", "⅛", "¼", "£", "→x", ":", "1", "Ṙ", "_", PEEK, "$", "L", "0 7Ȧ"]
INF_MAKERS = ["Þp", "Þ∞", "ÞF", "Þ!", "⁽›1Ḟ", "Þp2Ḟ"]
INF_POOL = [":", "D", "_", "$", "£", "¥", "→x", "←x", "⅛", "¾", PEEK, PEEK, "10c", "12c", "3c", "4Ẏ", "5i", "Ḣ", "2Ḟ", "1+", "d", "h", "3ȯ", "ƛd;", "'∷;", "z", "2ẇ", "Ṙ"]


def _shard_timing_exh(rec, arg):
    import itertools

    shard, nshards, maxlen = arg
    i = 0
    for L in range(2, maxlen + 1):
        for toks in itertools.product(STATE_ALPHABET, repeat=L):
            i += 1
            if i % nshards != shard:
                continue
            # eager for half of the programs, a (fresh, unevaluated) lazy list for the other half
            spec = ("l", [1, 2]) if (i // nshards) % 2 == 0 else ("z", [1, 2, 3], 0)
            r = check_timing(spec, list(toks))
            if r and r[0] == "discard":
                rec.discard("timing-" + r[1])
                continue
            rec.case(nontrivial=True, cls=["timing-exhaustive", f"timing-len{L}"])
            if r:
                rec.fail(r[0], {"kind": "timing", "spec": elemargs.tolist(spec), "toks": list(toks)}, r[1])


INF_ALPHABET = [":", "D", "$", PEEK, "10c", "12c", "4Ẏ", "5i", "_", "£", "¥", "Ḣ", "1+"]


def _shard_timing_inf_exh(rec, arg):
    import itertools

    shard, nshards, maxlen = arg
    i = 0
    for mk in INF_MAKERS:
        for L in range(1, maxlen + 1):
            for toks in itertools.product(INF_ALPHABET, repeat=L):
                i += 1
                if i % nshards != shard:
                    continue
                r = check_timing(("inf", mk), list(toks))
                if r and r[0] == "discard":
                    rec.discard("timing-" + r[1])
                    continue
                rec.case(nontrivial=L >= 2, cls=["timing-exhaustive", "timing-infinite-list"])
                if r:
                    rec.fail(r[0] + ":infinite", {"kind": "timing", "spec": ["inf", mk], "toks": list(toks)}, r[1])


def _shard_timing(rec, arg):
    seed, n = arg

    def t(spec, toks):
        r = check_timing(spec, toks)
        if r and r[0] == "discard":
            rec.discard("timing-" + r[1])
            return
        rec.case(key=(repr(spec), tuple(toks)), nontrivial=len(toks) >= 2, cls=["timing-tier", f"timing-len{len(toks)}"])
        if r:
            rec.fail(r[0], {"kind": "timing", "spec": elemargs.tolist(spec), "toks": list(toks)}, r[1])
        elif len(rec.samples) < 3 and len(toks) >= 3:
            rec.sample({"timing-program": "".join(toks), "value": elemargs.tolist(spec)})

    campaign.hyp_run(t, {"spec": elemargs.LST, "toks": st.lists(st.sampled_from(TIMING_POOL + STATE_ALPHABET * 3), min_size=1, max_size=5)}, seed, n)

    def t_inf(mk, toks):
        spec = ("inf", mk)
        r = check_timing(spec, toks)
        if r and r[0] == "discard":
            rec.discard("timing-" + r[1])
            return
        rec.case(key=(mk, tuple(toks)), nontrivial=len(toks) >= 2, cls=["timing-tier", "timing-infinite-list"])
        if r:
            rec.fail(r[0] + ":infinite", {"kind": "timing", "spec": ["inf", mk], "toks": list(toks)}, r[1])

    campaign.hyp_run(t_inf, {"mk": st.sampled_from(INF_MAKERS), "toks": st.lists(st.sampled_from(INF_POOL), min_size=2, max_size=5)}, seed + 3, max(40, n // 3))


# ---- shards -------------------------------------------------------------------
def _shard_elements(rec, arg):
    seed, keys, n = arg
    for key in keys:
        _one(rec, key, seed, n)


# fixed argument tuples tried for every element besides the sampled ones: the shapes in which in-place slips show
FX_LISTS = [("l", [1, 2, 3]), ("z", [1, 2, 3], 1), ("l", [("l", [1, 2]), ("l", [3, 4]), 9]), ("z", [("l", [1, 2]), ("l", [3])], 0),
            ("l", [("l", [1, 2]), ("l", [3])]), ("l", [("s", "ab"), ("s", "c")])]
FX_SCALARS = [0, 1, -1, 2, ("s", "a")]
FX_INDEX_LISTS = [("l", [0]), ("l", [("l", []), 1]), ("l", [1, ("l", [0])]), ("l", [("l", [0, 1])]), ("l", [5, 0, 2]), ("l", [7, 1])]
FX_FUNS = [("f", 0), ("f", 2)]


def _fixed_tuples(k):
    if k == 1:
        return [[a] for a in FX_LISTS]
    if k == 2:
        out = []
        for a in FX_LISTS:
            for b in FX_SCALARS + FX_INDEX_LISTS[:2] + FX_FUNS + [FX_LISTS[0]]:
                out += [[a, b], [b, a]]
        return out
    out = []
    for a in FX_LISTS:
        for b in FX_SCALARS[:4] + FX_INDEX_LISTS + FX_FUNS[:1]:
            out += [[a, b, 9], [a, b, ("f", 0)], [b, a, 9], [a, b, ("f", 2)]]
    return out


def _fixed(rec, key, k):
    for specs in _fixed_tuples(k):
        r = check_element(key, specs, False)
        if r and r[0] == "discard":
            rec.discard(r[1])
            continue
        rec.case(key=(key, repr(specs), "fixed"), nontrivial=True, cls=["element-tier", "fixed argument shapes"])
        if r:
            rec.fail(r[0], {"kind": "el", "key": key, "specs": elemargs.tolist(specs), "alias": False}, r[1])


def _one(rec, key, seed, n):
    k = harness.vyxal.elements.elements[key][1]
    if k == 0:
        return
    if k <= 3:
        _fixed(rec, key, k)

    def t(args, alias):
        specs = list(args)
        r = check_element(key, specs, alias and k >= 2)
        if r and r[0] == "discard":
            rec.discard(r[1])
            return
        rec.case(key=(key, repr(specs), alias), nontrivial=any(_is_list(s) for s in specs),
                 cls=["element-tier", f"arity{k}"] + (["aliased-arguments"] if alias and k >= 2 else []))
        if r:
            rec.fail(r[0], {"kind": "el", "key": key, "specs": elemargs.tolist(specs), "alias": bool(alias and k >= 2)}, r[1])

    strat = st.one_of(elemargs.args_strategy(key, k), st.tuples(*([elemargs.LST] * k)))
    higher_order = any("fun" in t for t in elemargs.overloads().get(key, []))   # more type combinations to get through
    campaign.hyp_run(t, {"args": strat, "alias": st.sampled_from([False, False, False, True])}, seed + sum(map(ord, key)),
                     n * (2 if k >= 3 else 1) * (3 if higher_order else 1))


ELEM_POOL = None


def elem_pool():
    """Monadic / dyadic elements that take a list on top (to be applied to the top copy)."""
    global ELEM_POOL
    if ELEM_POOL is None:
        els = harness.vyxal.elements.elements
        ELEM_POOL = [k for k, (_, ar) in els.items() if ar in (1, 2, 3) and k not in SKIP and k not in ("†", "Ė", ",", "₴", "…", "¨,", "¨…", "_", "£", "⅛")]
    return ELEM_POOL


def _shard_copy(rec, arg):
    seed, n = arg
    pool = elem_pool()
    fillers = ["0", "1", "2", "1N", "3"]

    def t(copy_op, spec, picks):
        elems = []
        els = harness.vyxal.elements.elements
        for key, f1, f2 in picks:
            ar = els[key][1]
            pre = "".join([fillers[f1] + " ", fillers[f2] + " "][: ar - 1])
            elems.append(pre + key)
        r = check_copy(copy_op, spec, elems)
        if r and r[0] == "discard":
            rec.discard(r[1])
            return
        rec.case(key=(copy_op, repr(spec), tuple(elems)), nontrivial=True, cls=["copy-tier", f"copy {copy_op}"])
        if r:
            rec.fail(r[0], {"kind": "copy", "op": copy_op, "spec": elemargs.tolist(spec), "elems": elems}, r[1])
        elif len(rec.samples) < 4:
            rec.sample({"program": copy_op + "".join(elems), "value": elemargs.tolist(spec)})

    pick = st.tuples(st.sampled_from(pool), st.integers(0, 4), st.integers(0, 4))
    campaign.hyp_run(t, {"copy_op": st.sampled_from(COPY_OPS), "spec": elemargs.LST, "picks": st.lists(pick, min_size=1, max_size=3)}, seed, n)


def run(rec, tier, seed):
    quick = tier == "quick"
    keys = [k for k in harness.vyxal.elements.elements if k not in SKIP]
    ns = campaign.NCPU * 2
    n_el = 22 if quick else 800
    campaign.parallel(rec, _shard_elements, [(seed * 1000, keys[i::ns], n_el) for i in range(ns)])
    n_cp = 150 if quick else 8000
    campaign.parallel(rec, _shard_copy, [(seed * 1000 + 7 + i, n_cp) for i in range(campaign.NCPU)])
    tl = 4 if quick else 5
    campaign.parallel(rec, _shard_timing_exh, [(s, ns, tl) for s in range(ns)])
    rec.exhaustive.append(f"observation-timing tier: all programs of length 2..{tl} over {len(STATE_ALPHABET)} state/copy operations on [v, v]")
    il = 2 if quick else 3
    campaign.parallel(rec, _shard_timing_inf_exh, [(s, ns, il) for s in range(ns)])
    rec.exhaustive.append(f"observation-timing tier on infinite lists: {len(INF_MAKERS)} makers x all programs of length<={il} over {len(INF_ALPHABET)} operations")
    n_t = 200 if quick else 6000
    campaign.parallel(rec, _shard_timing, [(seed * 1000 + 50 + i, n_t) for i in range(campaign.NCPU)])
    rec.notes["skipped"] = SKIP
    rec.exhaustive.append("every element key of arity >= 1 is exercised in the element tier (arguments are sampled)")


def replay(case):
    if case.get("kind") == "el":
        key = case["key"]
        els = harness.vyxal.elements.elements
        if key not in els or key in SKIP:
            return None
        specs = [elemargs.totuple(s) for s in case["specs"]]
        if len(specs) != els[key][1]:
            return None
        r = check_element(key, specs, bool(case.get("alias")))
    elif case.get("kind") == "copy":
        if case["op"] not in COPY_OPS or not isinstance(case["elems"], list) or not all(isinstance(e, str) for e in case["elems"]):
            return None
        spec = elemargs.totuple(case["spec"])
        if not _is_list(spec):
            return None
        r = check_copy(case["op"], spec, case["elems"])
    elif case.get("kind") == "timing":
        toks = case["toks"]
        if not isinstance(toks, list) or not toks or any(t not in TIMING_POOL + STATE_ALPHABET + INF_POOL + INF_ALPHABET for t in toks):
            return None
        if isinstance(case["spec"], list) and case["spec"][:1] == ["inf"]:
            if len(case["spec"]) != 2 or case["spec"][1] not in INF_MAKERS:
                return None
            spec = ("inf", case["spec"][1])
        else:
            spec = elemargs.totuple(case["spec"])
            if not _is_list(spec):
                return None
        r = check_timing(spec, toks)
    else:
        return None
    if r and r[0] == "discard":
        return None
    return r
