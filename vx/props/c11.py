"""C11 - input is a cyclic stream shared by explicit and implicit reads.

Model-based: a generated read history is rendered to a program in which every
delivered value is stored (⅛) in the global array in execution order.
  top level   explicit `?`, implicit pops of arity 1 / 2 / 3, reads inside
              list-literal items
  scopes      lambdas called with †, map lambdas, named functions with a numeric
              parameter; nested; explicit and implicit reads inside
Model: one global cursor over the program inputs (k-th delivery = inputs[k mod n],
0 when there are no inputs) shared by explicit reads at any depth and implicit
reads at top level.  For implicit reads inside a call only what the property
states is asserted: they are periodic with period = number of arguments and each
period is a permutation of the call's arguments.
"""
from __future__ import annotations

import itertools

from hypothesis import strategies as st

from vx import campaign, harness
from vx.harness import norm

RULE = ("Hypothesis-generated read histories (<= 12 operations, nested scopes) x input lists of length 0..4 of distinct "
        "values, plus an exhaustive tier of short top-level histories; non-trivial = more reads than inputs, both explicit "
        "and implicit reads, or a scoped read; distinct by (program, inputs)")
ASSUMPTIONS = [
    "'that call's arguments' are the values the call places on its own stack (lambda arguments, numeric parameters); "
    "zero-argument scopes and named parameters are not asserted",
    "inputs and scope arguments are pairwise distinct so every stored value identifies its origin",
]


# ---- history -> program ------------------------------------------------------------
class R:
    """Renderer/expectation builder for one history."""

    def __init__(self):
        self.text = []
        self.expect = []      # per delivered value, in storage order: ("G",) | ("S", scope_instance)
        self.decode = []      # per stored entry: permutation describing how the entry lists its deliveries
        self.scopes = {}      # scope instance -> list of argument values
        self.next_scope = 0
        self.nfun = 0
        self.pending = []     # (index into expect, scope): before that delivery the call takes one value of the global stream as an argument

    def new_scope(self, args):
        sid = self.next_scope
        self.next_scope += 1
        self.scopes[sid] = list(args)
        return sid

    def args_for(self, k):
        """pairwise distinct arguments; in every other scope the first argument is a list (a call with one list
        argument has ONE argument: its implicit reads deliver that list, not its items)"""
        base = 2000 + 10 * self.next_scope
        out = [base + j for j in range(k)]
        if self.next_scope % 2 == 1:
            out[0] = [base + 5, base + 6]
        return out


def lit(a):
    return "⟨" + "|".join(lit(x) for x in a) + "⟩" if isinstance(a, list) else str(a)


def render_ops(r, ops, scope):
    """scope: None at top level, else scope instance id (implicit reads belong to it)."""
    for op in ops:
        kind = op[0]
        if kind == "E":
            r.text.append("?⅛")
            r.expect.append(("G",))
            r.decode.append(None)
        elif kind == "I1":
            r.text.append("⅛")
            r.expect.append(("G",) if scope is None else ("S", scope))
            r.decode.append(None)
        elif kind == "I2" and scope is None:
            r.text.append('"⅛')
            r.expect += [("G",), ("G",)]
            r.decode.append((1, 0))        # entry = [second delivered, first delivered]
        elif kind == "I3" and scope is None:
            r.text.append("∇W⅛")
            r.expect += [("G",), ("G",), ("G",)]
            r.decode.append((0, 2, 1))     # entry = [p1, p3, p2]
        elif kind == "L" and scope is None:
            items = op[1]
            r.text.append("⟨" + "|".join("?" if it == "E" else ":_" for it in items) + "⟩⅛")
            r.expect += [("G",)] * len(items)
            r.decode.append(tuple(range(len(items))))
        elif kind == "S":
            _, how, k, body = op
            if how == "map":
                args = r.args_for(2)
                sids = []
                # two calls, one per item; each has the single argument = the item
                r.text.append(f"⟨{lit(args[0])}|{lit(args[1])}⟩ƛ_")
                mark = len(r.text)
                # body is rendered once in the text but executed twice: expectations are duplicated
                sub = R()
                sub.next_scope = r.next_scope + 2
                sub.nfun = r.nfun + 1
                sid_a, sid_b = r.new_scope([args[0]]), r.new_scope([args[1]])
                render_ops(sub, body, "CUR")
                r.text += sub.text
                r.text.append("0;L_")
                for sid in (sid_a, sid_b):
                    for e in sub.expect:
                        r.expect.append(("S", sid) if e == ("S", "CUR") else e)
                    r.decode += sub.decode
                if sub.scopes:
                    raise ValueError("nested scope inside a map body is not generated")
            else:
                args = r.args_for(k)
                sid = r.new_scope(args)
                lits = " ".join(lit(a) for a in args) + " "
                if how == "lam":
                    r.text.append(lits + f"λ{k}|" + "_" * k)
                    render_ops(r, body, sid)
                    r.text.append("0;†W_")
                elif how == "lam0":
                    # the lambda ends with an empty stack: its result is one more implicit read of the call
                    r.text.append(lits + f"λ{k}|" + "_" * k)
                    render_ops(r, body, sid)
                    r.text.append(";†⅛")
                    r.expect.append(("S", sid))
                    r.decode.append(None)
                elif how == "red":
                    # a lambda DECLARED with one argument but called with two by reduce (R): the call's arguments are both
                    # of them.  ⟨A|B|C⟩ λ1|__ body 0;R_  -> calls (A, B) -> 0, then (0, C)
                    a3 = r.args_for(3)
                    a3 = [x if not isinstance(x, list) else 2900 + 10 * r.next_scope for x in a3]   # plain numbers here
                    r.scopes[sid] = [a3[0], a3[1]]
                    sid2 = r.new_scope([0, a3[2]])
                    r.text.append("⟨" + "|".join(lit(x) for x in a3) + "⟩λ1|__")
                    sub = R()
                    sub.next_scope = r.next_scope + 1
                    sub.nfun = r.nfun + 1
                    render_ops(sub, body, "CUR")
                    if sub.scopes or sub.pending:
                        raise ValueError("nested scope inside a reduce body is not generated")
                    r.text += sub.text
                    r.text.append("0;R_")
                    for s_ in (sid, sid2):
                        for e in sub.expect:
                            r.expect.append(("S", s_) if e == ("S", "CUR") else e)
                        r.decode += sub.decode
                elif how == "funx":
                    # named function whose NAMED parameter comes before a count: @f:x:k| - x takes the top entry, the
                    # next k entries are the call's arguments
                    r.nfun += 1
                    name = "f" + "abcdefghij"[r.nfun % 10] + "lmnopqrstu"[(r.nfun // 10) % 10]
                    extra = 2990 + 10 * sid
                    r.text.append(f"@{name}:x:{k}|" + "_" * k)
                    render_ops(r, body, sid)
                    r.text.append(f";{lits}{extra} @{name};W_")
                elif how == "funs":
                    # named function with a numeric parameter called on a stack that holds one argument too few
                    # (top level only): the missing argument is an implicit read of the caller, i.e. the next
                    # value of the program's input stream, and becomes one of the call's arguments
                    if scope is not None:
                        raise ValueError("short-stack call is only generated at top level")
                    r.nfun += 1
                    name = "f" + "abcdefghij"[r.nfun % 10] + "lmnopqrstu"[(r.nfun // 10) % 10]
                    r.text.append("W_" + f"@{name}:{k}|" + "_" * k)
                    r.scopes[sid] = list(args[1:])
                    r.pending.append((len(r.expect), sid))
                    render_ops(r, body, sid)
                    r.text.append(";" + " ".join(lit(a) for a in args[1:]) + f" @{name};W_")
                else:
                    r.nfun += 1
                    name = "f" + "abcdefghij"[r.nfun % 10] + "lmnopqrstu"[(r.nfun // 10) % 10]
                    r.text.append(f"@{name}:{k}|" + "_" * k)
                    render_ops(r, body, sid)
                    r.text.append(f";{lits}@{name};W_")
        else:
            raise ValueError(op)


def build(ops):
    r = R()
    render_ops(r, ops, None)
    return r


def check(ops, inputs):
    """-> ('discard', why) | None | (sig, msg)"""
    try:
        r = build(ops)
    except ValueError as e:
        return ("discard", str(e))
    text = "".join(r.text)
    res = harness.run_program(text, inputs=list(inputs), budget=3_000_000)
    if res.exc is not None:
        return (f"C11:raises:{type(res.exc).__name__}", f"program {text!r} with inputs {inputs!r} raised {type(res.exc).__name__}: {res.exc}")
    stored = [norm(x) for x in res.ctx.global_array]
    if len(stored) != len(r.decode):
        return ("C11:stored-count", f"program {text!r} with inputs {inputs!r}: {len(stored)} stores, expected {len(r.decode)}")
    deliveries = []
    for entry, perm in zip(stored, r.decode):
        if perm is None:
            deliveries.append(entry)
        else:
            if not isinstance(entry, list) or len(entry) != len(perm):
                return ("C11:stored-shape", f"program {text!r} with inputs {inputs!r}: stored entry {harness.jsonable(entry)!r} is not a list of {len(perm)} reads")
            seq = [None] * len(perm)
            for pos_in_entry, delivery_index in enumerate(perm):
                seq[delivery_index] = entry[pos_in_entry]
            deliveries += seq
    assert len(deliveries) == len(r.expect)
    n = len(inputs)
    cursor = 0
    per_scope = {}
    pending = dict(r.pending)
    scope_args = {sid: list(a) for sid, a in r.scopes.items()}
    tail_pending = [sid for idx, sid in r.pending if idx >= len(r.expect)]
    for i, (got, exp) in enumerate(zip(deliveries, r.expect)):
        if i in pending:
            scope_args[pending[i]].append(inputs[cursor % n] if n else 0)
            cursor += 1
        if exp == ("G",):
            want = norm(inputs[cursor % n]) if n else norm(0)
            cursor += 1
            if got != want:
                kind = "explicit" if r_kind(r, i) == "E" else "implicit"
                where = "top" if True else ""
                return (f"C11:global-stream:{kind}", f"program {text!r} with inputs {inputs!r}: delivery #{i} (global read #{cursor - 1}) was "
                        f"{harness.jsonable(got)!r}, the cyclic stream gives {harness.jsonable(want)!r}; all deliveries: {harness.jsonable(deliveries)!r}")
        else:
            per_scope.setdefault(exp[1], []).append(got)
    for sid, reads in per_scope.items():
        args = [norm(a) for a in scope_args[sid]]
        k = len(args)
        if k == 0:
            continue
        for j, v in enumerate(reads):
            if v != reads[j % k]:
                return ("C11:scope:not-periodic", f"program {text!r} with inputs {inputs!r}: implicit reads of a call with arguments {harness.jsonable(args)!r} "
                        f"were {harness.jsonable(reads)!r}: not periodic with period {k}")
        head = reads[:k]
        if len(set(map(repr, head))) != len(head) or any(v not in args for v in head):
            return ("C11:scope:not-the-arguments", f"program {text!r} with inputs {inputs!r}: implicit reads of a call with arguments {harness.jsonable(args)!r} "
                    f"were {harness.jsonable(reads)!r}: not a permutation of the call's arguments")
    return None


def r_kind(r, i):
    return "?"


def _flat(ops):
    for op in ops:
        yield op
        if op[0] == "S":
            yield from _flat(op[3])


def _nontrivial(ops, inputs):
    flat = list(_flat(ops))
    nreads = sum({"E": 1, "I1": 1, "I2": 2, "I3": 3}.get(o[0], len(o[1]) if o[0] == "L" else 0) for o in flat)
    kinds = {o[0] for o in flat}
    return nreads > len(inputs) or ("E" in kinds and kinds & {"I1", "I2", "I3"}) or "S" in kinds


# ---- generators ---------------------------------------------------------------------
TOP = st.one_of(st.just(("E",)), st.just(("I1",)), st.just(("I2",)), st.just(("I3",)),
                st.lists(st.sampled_from(["E", "I"]), min_size=1, max_size=3).map(lambda it: ("L", it)))
INNER = st.one_of(st.just(("E",)), st.just(("I1",)), st.just(("I1",)))


def scope(depth):
    body = st.lists(INNER if depth == 0 else st.one_of(INNER, INNER, scope(depth - 1)), min_size=1, max_size=4)
    plain = st.tuples(st.sampled_from(["lam", "fun", "lam0", "funx"] + (["funs"] if depth == 1 else [])), st.integers(1, 3), body).map(lambda t: ("S", t[0], t[1], t[2]))
    mp = st.lists(INNER, min_size=1, max_size=3).map(lambda b: ("S", "map", 1, b))
    rd = st.lists(INNER, min_size=1, max_size=4).map(lambda b: ("S", "red", 2, b))
    return st.one_of(plain, plain, mp, rd)


HISTORY = st.lists(st.one_of(TOP, TOP, scope(1)), min_size=1, max_size=12)
INPUT_POOL = [1000, 1001, 1002, 1003, ("s", "sa"), ("l", [7, 8]), ("q", 1, 3)]
INPUTS = st.lists(st.sampled_from(range(len(INPUT_POOL))), max_size=4, unique=True).map(lambda ix: [INPUT_POOL[i] for i in ix])


def _tolist(x):
    return [_tolist(y) for y in x] if isinstance(x, (tuple, list)) else x


def _do(rec, ops, in_specs, cls):
    inputs = [harness.build_value(s) for s in in_specs]
    r = check(ops, inputs)
    if r and r[0] == "discard":
        rec.discard(r[1])
        return
    rec.case(key=(repr(ops), repr(in_specs)), nontrivial=bool(_nontrivial(ops, in_specs)),
             cls=[cls, f"inputs{len(in_specs)}"] + (["scoped"] if any(o[0] == "S" for o in ops) else []))
    if r:
        rec.fail(r[0], {"ops": _tolist(ops), "inputs": _tolist(in_specs)}, r[1])


def _shard_exh(rec, arg):
    shard, nshards, maxlen = arg
    alphabet = [("E",), ("I1",), ("I2",), ("I3",), ("L", ["E", "I"]), ("S", "lam", 2, [("I1",), ("E",), ("I1",), ("I1",)]),
                ("S", "fun", 1, [("E",), ("I1",)]), ("S", "map", 1, [("I1",), ("E",)]), ("S", "lam0", 1, [("I1",)]), ("S", "funs", 2, [("I1",), ("E",), ("I1",)]), ("S", "red", 2, [("I1",), ("I1",), ("E",), ("I1",)]),
                ("S", "funx", 2, [("I1",), ("I1",), ("I1",)])]
    i = 0
    for n_in in range(0, 4):
        ins = [1000 + j for j in range(n_in)]
        for L in range(1, maxlen + 1):
            for ops in itertools.product(alphabet, repeat=L):
                i += 1
                if i % nshards != shard:
                    continue
                _do(rec, list(ops), ins, "exhaustive-short-history")
    if shard == 0:
        b = build([("E",), ("I2",), ("S", "lam", 2, [("I1",), ("E",), ("I1",)])])
        rec.sample({"history": ["explicit", "implicit-arity-2", "lambda(2 args): implicit, explicit, implicit"], "program": "".join(b.text)})


def _shard_hyp(rec, arg):
    seed, n = arg

    def t(ops, ins):
        _do(rec, ops, ins, "generated-history")
        if len(rec.samples) < 5 and len(ops) >= 5:
            rec.sample({"program": "".join(build(ops).text), "inputs": _tolist(ins)})

    campaign.hyp_run(t, {"ops": HISTORY, "ins": INPUTS}, seed, n)


def run(rec, tier, seed):
    quick = tier == "quick"
    ns = campaign.NCPU
    campaign.parallel(rec, _shard_exh, [(s, ns, 3 if quick else 4) for s in range(ns)])
    rec.exhaustive.append(f"all histories of length<={3 if quick else 4} over 12 operation kinds x 0..3 inputs")
    n = 150 if quick else 6000
    campaign.parallel(rec, _shard_hyp, [(seed * 1000 + i, n) for i in range(ns)])


def _ops_from_json(x):
    out = []
    for op in x:
        k = op[0]
        if k in ("E", "I1", "I2", "I3") and len(op) == 1:
            out.append((k,))
        elif k == "L" and len(op) == 2 and op[1] and all(i in ("E", "I") for i in op[1]):
            out.append(("L", list(op[1])))
        elif k == "S" and len(op) == 4 and op[1] in ("lam", "fun", "map", "lam0", "funs", "red", "funx") and isinstance(op[2], int) and 1 <= op[2] <= 3:
            body = _ops_from_json(op[3])
            if not body or any(b[0] not in ("E", "I1", "S") for b in body):
                raise ValueError(op)
            out.append(("S", op[1], 1 if op[1] == "map" else op[2], body))
        else:
            raise ValueError(op)
    return out


def replay(case):
    ops = _ops_from_json(case["ops"])
    if not ops:
        return None
    ins = []
    for s in case["inputs"]:
        s = tuple(s) if isinstance(s, list) else s
        if isinstance(s, tuple):
            s = (s[0], list(s[1])) if s[0] == "l" else s
        if s not in INPUT_POOL:
            return None
        ins.append(s)
    if len(set(map(repr, ins))) != len(ins):
        return None
    r = check(ops, [harness.build_value(s) for s in ins])
    if r and r[0] == "discard":
        return None
    return r
