"""C12 - interpreter context is balanced after every construct.

Generated core-grammar programs (structures nested to depth <= 3-4, X / x at
every position, printing of lazy lists and functions) are parsed with the
repo's parser and executed one top-level statement at a time in one namespace.
After every statement and at the end the depth tuple
  (len(context_values), len(inputs), len(stacks), len(function_stack))
must equal the initial one and ctx.context_values must be [0] (so `n` yields the
top-level context).  Only programs that finish normally are claimed: an
exception or an exhausted step budget discards the case.
A second, exhaustive tier wraps every early exit (X, x) and every printing
element in every pair of enclosing constructs.
"""
from __future__ import annotations

import itertools

from vx import campaign, harness, progs
from vx.harness import vyxal

RULE = ("Hypothesis-generated core-grammar programs executed statement by statement, plus an exhaustive family of "
        "early-exit / printing bodies inside every pair of enclosing constructs; non-trivial = the program contains X / x, "
        "prints, or nests >= 2 scope-pushing constructs, and it finished normally; distinct by (program, inputs)")
ASSUMPTIONS = [
    "only programs that finish normally within the step budget are claimed",
    "the depth tuple is compared with the tuple observed before the first statement",
]


def depth_tuple(ctx):
    scopes = ctx.inputs if hasattr(ctx, "inputs") else getattr(ctx, "input_scopes")
    return (len(ctx.context_values), len(scopes), len(ctx.stacks), len(ctx.function_stack))


NAMES = ("context_values", "inputs", "stacks", "function_stack")


def _innermost(ast_seq, target_kinds=("brk", "rec")):
    """kind of early exit + chain of enclosing constructs (for the signature)."""
    best = None

    def go(seq, chain):
        nonlocal best
        for n in seq:
            if n[0] in target_kinds and best is None:
                best = (n[0], tuple(chain))
            for ch in progs.children(n):
                go(ch, chain + [n[0] if n[0] != "mod" else "mod" + n[1]])

    go(ast_seq, [])
    return best


def check_text(text, inputs=(), ast=None):
    """-> ('discard', why) | None | (sig, msg)"""
    harness.reset_globals()
    ctx = harness.fresh_ctx(inputs)
    stack = []
    ctx.stacks.append(stack)
    try:
        structs = vyxal.parse.parse(vyxal.lexer.tokenise(text))
    except Exception as e:  # noqa: BLE001
        return ("discard", "parse:" + type(e).__name__)
    initial = depth_tuple(ctx)
    ns = None
    for i, stc in enumerate(structs):
        try:
            code = vyxal.transpile.transpile_single(stc, 0)
        except Exception as e:  # noqa: BLE001
            return ("discard", "transpile:" + type(e).__name__)
        r = harness.exec_py(code, stack, ctx, budget=40_000, wall=8, ns=ns)
        if r.exc is not None:
            return ("discard", type(r.exc).__name__)
        ns = r.ns
        now = depth_tuple(ctx)
        bad = None
        if now != initial:
            leaked = [f"{NAMES[j]}{now[j] - initial[j]:+d}" for j in range(4) if now[j] != initial[j]]
            bad = ("leak=" + ",".join(leaked), f"depths (context_values, inputs, stacks, function_stack) went from {initial} to {now}")
        elif harness.norm(ctx.context_values) != [harness.norm(0)]:
            bad = ("context-not-top-level", f"ctx.context_values is {harness.jsonable(harness.norm(ctx.context_values))!r} instead of [0]")
        if bad:
            kind = type(stc).__name__
            inner = _innermost(ast) if ast else None
            extra = ""
            if inner:
                extra = f":exit={inner[0]}:in={inner[1][-1] if inner[1] else 'top'}"
            return (f"C12:{bad[0]}:stmt={kind}{extra}", f"program {text!r} with inputs {list(inputs)!r}: after top-level statement {i} ({kind}) {bad[1]}")
    return None


def _nontrivial(ast):
    scope = {"for", "while", "lam", "map", "flt", "srt", "def"}
    has_exit = any(n[0] in ("brk", "rec") for n, _ in progs.walk(ast))
    prints = any(n[0] == "el" and n[1] in progs.CORE_PRINT for n, _ in progs.walk(ast))
    nested = any(n[0] in scope and d >= 1 for n, d in progs.walk(ast))
    return has_exit or prints or nested


def _do(rec, ast, inputs, cls):
    text = progs.render(ast)
    r = check_text(text, inputs, ast)
    if r and r[0] == "discard":
        rec.discard(r[1])
        return
    rec.case(key=(text, repr(inputs)), nontrivial=_nontrivial(ast), cls=cls)
    if r:
        rec.fail(r[0], {"ast": ast, "inputs": list(inputs)}, r[1])


# ---- exhaustive wrappers ----------------------------------------------------------
N = lambda t: ["num", str(t)]  # noqa: E731
E = lambda k: ["el", k]  # noqa: E731
BODIES = {
    "X": [["brk"]], "x-guarded": [E(":"), ["if", [[E("‹"), ["rec"]]]]], "1X2": [N(1), ["brk"], N(2)], "if-X": [N(1), ["if", [[["brk"]], [N(2)]]]],
    "if-x-else-X": [E("n"), ["if", [[["brk"]], [["brk"]]]]], "print-range": [N(3), E("ɾ"), E(",")], "print-lazy-keep": [N(2), E("ɾ"), E("…"), E("_")],
    "print-map": [N(3), ["map", [E("d")]], E("₴")], "print-fn": [["lam", None, [N(1)]], E(",")], "plain": [N(1), N(2), E("+")],
    "elif-body-X": [N(0), ["if", [[N(1)], [N(1)], [["brk"]], [N(4)]]]], "elif-cond-X": [N(0), ["if", [[N(1)], [["brk"]], [N(7)]]]],
    "elif-body-x": [N(0), ["if", [[N(1)], [N(1)], [["rec"]], [N(4)]]]], "second-elif-X": [N(0), ["if", [[N(1)], [N(0)], [N(2)], [N(1)], [["brk"]]]]],
    "final-else-X": [N(0), ["if", [[N(1)], [N(0)], [N(2)], [["brk"]]]]],
    "nested-list-X": [["list", [[N(1), ["brk"]], [N(2)]]]], "mod-X": [N(1), ["mod", "v", [["brk"]]]],
    # an inner loop (same variable name as the "for-named" wrapper) runs to completion, then the enclosing construct is left early
    "inner-loop-then-X": [N(2), ["for", "i", []], ["brk"]], "inner-loop-then-x": [N(2), ["for", "i", [N(1), E("_")]], ["rec"]],
    "inner-loop-then-if-X": [N(2), ["for", "i", [N(1), E("_")]], E("n"), N(2), E("="), ["if", [[["brk"]]]]],
    "inner-while-then-X": [N(1), ["while", [E(":")], [E("‹")]], E("_"), ["brk"]],
    # a lazy result made by a modifier inside the call escapes and is only partly read afterwards (see wrapper lambda-call-then-peek)
    "vectorised-lazy-result": [E("ɾ"), ["mod", "v", [E("›")]]], "scan-lazy-result": [E("ɾ"), ["mod", "ɖ", [E("+")]]],
    "map-lazy-result": [E("ɾ"), ["map", [E("d")]]],
    "X-in-while-condition": [N(0), ["while", [["brk"]], [N(1)]]], "x-guarded-in-while-condition": [N(0), ["while", [E(":"), N(3), E("="), ["if", [[["brk"]]]], N(1)], [E("›")]]],
}
WRAPS = {
    "for": lambda b: [N(2), ["for", None, b]], "for-named": lambda b: [N(2), ["for", "i", b]],
    "while": lambda b: [N(2), ["while", [E(":")], b + [E("‹")]], E("_")], "if": lambda b: [N(1), ["if", [b]]],
    "lambda-call": lambda b: [N(4), ["lam", None, b], E("†")], "lambda0-call": lambda b: [["lam", 0, b], E("†")],
    "map": lambda b: [N(2), ["map", b], E("L")], "filter": lambda b: [N(2), ["flt", b], E("L")], "sort": lambda b: [N(2), ["srt", b], E("L")],
    "def-call": lambda b: [["def", "f", ["1"], b], N(5), ["call", "f"]], "list": lambda b: [["list", [b, [N(7)]]]],
    "mod-v": lambda b: [N(2), ["mod", "v", [["lam", None, b]]], E("L")], "mod-ß": lambda b: [N(1), ["mod", "ß", [["lam", None, b]]]],
    "lambda-call-then-peek": lambda b: [N(4), ["lam", None, b], E("†"), E(":"), E("h"), E("_")],
    "lambda-call-keep-in-variable-then-peek": lambda b: [N(4), ["lam", None, b], E("†"), ["set", "a"], ["get", "a"], E("h"), E("_")],
    "mod-ƒ": lambda b: [N(3), ["mod", "ƒ", [["lam", 2, b]]]], "none": lambda b: b,
}


def _shard_exh(rec, arg):
    shard, nshards = arg
    i = 0
    for bname, body in BODIES.items():
        for w1, w2 in itertools.product(WRAPS, repeat=2):
            i += 1
            if i % nshards != shard:
                continue
            inner = WRAPS[w1](body)
            prog = WRAPS[w2](inner) + [E("n")]
            _do(rec, prog, (), ["exhaustive-wrap", f"body {bname}"])
            _do(rec, prog + prog, (5,), ["exhaustive-wrap", f"body {bname}"])
    if shard == 0:
        rec.sample({"program": progs.render(WRAPS["for"](WRAPS["lambda-call"](BODIES["1X2"])) + [E("n")])})


def repair(seq, in_fn=False):
    """Keep generated programs runnable (fewer discards, same grammar): `x` outside any lambda / function has no
    function to recurse into (NameError) and becomes X; a general while loop whose body cannot leave gets a final X."""
    out = []
    for n in seq:
        k = n[0]
        if k == "rec" and not in_fn:
            out.append(["brk"])
        elif k == "if":
            out.append(["if", [repair(b, in_fn) for b in n[1]]])
        elif k == "for":
            out.append(["for", n[1], repair(n[2], in_fn)])
        elif k == "while":
            body = repair(n[2], in_fn)
            counter = n[1] == [["el", ":"]] and body[-1:] == [["el", "‹"]]
            if not counter and not any(m[0] == "brk" for m in body):
                body = body + [["brk"]]
            out.append(["while", repair(n[1], in_fn) if n[1] is not None else None, body])
        elif k == "lam":
            out.append(["lam", n[1], repair(n[2], True)])
        elif k in ("map", "flt", "srt"):
            out.append([k, repair(n[1], True)])
        elif k == "def":
            out.append(["def", n[1], n[2], repair(n[3], True)])
        elif k == "list":
            out.append(["list", [repair(b, in_fn) for b in n[1]]])
        elif k == "mod":
            out.append(["mod", n[1], repair(n[2], in_fn)])
        else:
            out.append(n)
    return out


def _shard_hyp(rec, arg):
    from hypothesis import strategies as st

    seed, n = arg

    def t(p, ins):
        # reading a variable that was never set is a NameError: give the two generated names a value first
        p = [["num", "0"], ["set", "a"], ["num", "0"], ["set", "b"]] + repair(p)
        _do(rec, p, tuple(ins), ["generated", f"depth{progs.ast_depth(p)}"])
        if len(rec.samples) < 5 and progs.ast_depth(p) >= 2:
            rec.sample({"program": progs.render(p), "inputs": list(ins)})

    campaign.hyp_run(t, {"p": progs.core_strategy(3), "ins": st.lists(st.integers(0, 5), max_size=3)}, seed, n)


def run(rec, tier, seed):
    quick = tier == "quick"
    ns = campaign.NCPU
    campaign.parallel(rec, _shard_exh, [(s, ns) for s in range(ns)])
    rec.exhaustive.append(f"{len(BODIES)} early-exit/printing bodies x {len(WRAPS)}^2 enclosing constructs")
    n = 400 if quick else 20000
    campaign.parallel(rec, _shard_hyp, [(seed * 1000 + i, n) for i in range(ns)])


def replay(case):
    ast = case["ast"]
    progs.validate(ast)
    ins = case.get("inputs", [])
    if not all(isinstance(x, int) and not isinstance(x, bool) for x in ins):
        return None
    r = check_text(progs.render(ast), tuple(ins), ast)
    if r and r[0] == "discard":
        return None
    return r
