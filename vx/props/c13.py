"""C13 - a finite lazy list is indistinguishable from the list it enumerates.

Model-based: real = LazyList(iter(xs)), model = the Python list xs.
  * exhaustive tier: every source list of length 0..3 over {0,1,2} x every
    history of length <= H over the fixed op table (H = 3 quick, 4 thorough);
  * random tier: Hypothesis RuleBasedStateMachine, histories <= 12 on lists
    <= 8 (ints, strings, nested lists), slices with generated bounds.
After the history the list must still enumerate xs (listify and iteration).
The first divergence of a history is recorded under a signature made of the
operation kind and what differed; the history up to that point is the case.
"""
from __future__ import annotations

import itertools

import hypothesis
from hypothesis import HealthCheck, Phase, settings
from hypothesis import strategies as st
from hypothesis.stateful import RuleBasedStateMachine, initialize, rule, run_state_machine_as_test

from vx import campaign, harness
from vx.harness import LazyList, norm, vyxal

RULE = ("histories of observations on LazyList(iter(xs)) compared step by step with the list xs; exhaustive over "
        "short histories on small lists, Hypothesis state machine for long ones; non-trivial = >=2 observations of "
        "which a non-final one forces part of the list; distinct by (xs, history)")
ASSUMPTIONS = [
    "out-of-range positive indices wrap around (xs[i % len], 0 when empty) as the property states",
    "an exception counts as equal behaviour only if the plain list raises the same exception class for the same observation",
]

deep_copy = vyxal.helpers.deep_copy


class Diverged(Exception):
    pass


def _exc_name(e):
    return "raises:" + type(e).__name__


def observe(ll, xs, op):
    """Apply one observation to the lazy list and to the model.
    -> (got, want); exceptions are returned as 'raises:<Type>' markers."""
    name = op[0]
    n = len(xs)

    def both(real_fn, model_fn):
        try:
            got = real_fn()
        except Exception as e:  # noqa: BLE001
            got = _exc_name(e)
        try:
            want = model_fn()
        except Exception as e:  # noqa: BLE001
            want = _exc_name(e)
        return got, want

    if name == "idx":      # absolute non-negative position, wrap-around
        i = op[1]
        return both(lambda: norm(ll[i]), lambda: norm(xs[i % n]) if n else norm(0))
    if name == "idx_rel":  # len + k
        i = n + op[1]
        if i < 0:
            return None
        return both(lambda: norm(ll[i]), lambda: norm(xs[i % n]) if n else norm(0))
    if name == "neg":
        k = op[1]
        return both(lambda: norm(ll[-k]), lambda: norm(xs[-k]))
    if name == "slice":
        if op[3] == 0:
            return None  # step 0 is an error for lists; not an observation
        sl = slice(op[1], op[2], op[3])
        return both(lambda: norm(ll[sl]), lambda: norm(xs[sl]))
    if name == "len":
        return both(lambda: len(ll), lambda: n)
    if name == "iter":
        return both(lambda: norm(list(ll)), lambda: norm(xs))
    if name == "partial":
        k = op[1]

        def part():
            it = iter(ll)
            out = []
            for _ in range(k):
                try:
                    out.append(next(it))
                except StopIteration:
                    break
            return norm(out)

        return both(part, lambda: norm(xs[:k]))
    if name == "bool":
        return both(lambda: bool(ll), lambda: bool(xs))
    if name == "in":
        v = op[1]
        return both(lambda: bool(v in ll), lambda: v in xs)
    if name in ("eq_list", "eq_lazy"):
        kind = op[1]
        other = {True: list(xs), "same": list(xs), False: list(xs) + [1], "longer": list(xs) + [1], "prefix": list(xs[:-1]), "empty": [],
                 "front": [9] + list(xs), "lastdiff": list(xs[:-1]) + [77] if xs else [77], "suffix": list(xs[1:])}[kind]
        if name == "eq_list":
            return both(lambda: bool(ll == other), lambda: xs == other)
        return both(lambda: bool(ll == LazyList(iter(other))), lambda: xs == other)
    if name == "count":
        v = op[1]
        return both(lambda: ll.count(v), lambda: xs.count(v))
    if name == "reversed":
        return both(lambda: norm(ll.reversed()), lambda: norm(xs[::-1]))
    if name == "copy":
        def cp():
            c = deep_copy(ll)
            k = op[1]
            if k is None:
                return norm(c)
            return norm([c[i] for i in range(min(k, n))])
        return both(cp, lambda: norm(xs if op[1] is None else xs[:op[1]]))
    if name == "has_ind":
        i = n + op[1] if op[2] else op[1]
        if i < 0:
            return None
        return both(lambda: bool(ll.has_ind(i)), lambda: 0 <= i < n)
    if name == "listify":
        return both(lambda: norm(ll.listify()), lambda: norm(xs))
    raise ValueError(op)


# ops that pull from the source without necessarily draining it
FORCING_PARTIAL = {"idx", "idx_rel", "partial", "bool", "has_ind", "in", "slice", "copy"}

FIXED_OPS = [
    ("idx", 0), ("idx", 1), ("idx_rel", -1), ("idx_rel", 0), ("idx_rel", 2),
    ("neg", 1), ("neg", 2),
    ("slice", 1, None, None), ("slice", None, -1, None), ("slice", 0, 2, None),
    ("slice", None, None, 2), ("slice", 1, None, 2), ("slice", 0, 3, 2), ("slice", 1, 4, 2),
    ("len",), ("iter",), ("partial", 1), ("partial", 2), ("bool",),
    ("in", 1), ("in", 7), ("eq_list", "same"), ("eq_list", "longer"), ("eq_list", "prefix"), ("eq_lazy", "same"), ("eq_lazy", "front"),
    ("eq_lazy", "prefix"), ("eq_list", "empty"),
    ("count", 1), ("reversed",), ("copy", None), ("copy", 1),
    ("has_ind", 0, False), ("has_ind", -1, True), ("has_ind", 0, True), ("listify",),
]


def slice_class(op, n):
    """in-range slices are part of the main claim; the rest get their own signature class."""
    _, a, b, c = op
    if c is not None and c < 0:
        return "negstep"
    for v in (a, b):
        if v is not None and (v > n or v < -n):
            return "out-of-range"
    return "in-range"


def run_history(xs, ops):
    """-> None, or (sig, msg, k) where k = index of the diverging op (len(ops) = final check)."""
    ll = LazyList(iter(list(xs)))
    cp = None
    cp2 = None
    for k, op in enumerate(ops):
        op = tuple(op)
        if op[0] == "mkcopy":
            cp = deep_copy(ll)
            continue
        if op[0] == "mkcopy2":      # a copy of the copy (whatever state the copy is in)
            if cp is not None:
                cp2 = deep_copy(cp)
            continue
        if op[0] == "c":
            if cp is None:
                continue
            r = observe(cp, xs, tuple(op[1:]))
        elif op[0] == "d":
            if cp2 is None:
                continue
            r = observe(cp2, xs, tuple(op[1:]))
        else:
            r = observe(ll, xs, op)
        if r is None:
            continue
        got, want = r
        if got != want:
            on_copy = op[0] in ("c", "d")
            second = op[0] == "d"
            if on_copy:
                op = tuple(op[1:])
            kind = op[0]
            if kind == "slice":
                kind = "slice-" + slice_class(op, len(xs))
            if on_copy:
                kind = ("copy-of-copy." if second else "copy.") + kind
            what = "raises" if isinstance(got, str) and got.startswith("raises:") else "value"
            prior = "after-" + (str(ops[k - 1][0]) if k else "nothing")
            return (f"C13:{kind}:{what}", f"xs={xs!r} history={list(map(list, ops[:k + 1]))!r}: observation {list(op)!r} "
                    f"returned {got!r}, the list gives {want!r} ({prior})", k)
    try:
        if cp2 is not None:
            final2c = norm(cp2.listify())
            if final2c != norm(xs):
                return ("C13:copy-of-copy-denotation-changed", f"xs={xs!r} history={list(map(list, ops))!r}: the copy of the copy now "
                        f"enumerates {final2c!r}", len(ops))
        if cp is not None:
            finalc = norm(cp.listify())
            if finalc != norm(xs) or norm(list(cp)) != norm(xs):
                return ("C13:copy-denotation-changed", f"xs={xs!r} history={list(map(list, ops))!r}: the copy now "
                        f"enumerates {finalc!r}", len(ops))
        final = norm(ll.listify())
        final2 = norm(list(ll))
    except Exception as e:  # noqa: BLE001
        return ("C13:final:raises", f"xs={xs!r} history={list(map(list, ops))!r}: enumerating afterwards raised {e!r}", len(ops))
    if final != norm(xs) or final2 != norm(xs):
        last = ops[-1][0] if ops else "nothing"
        return (f"C13:denotation-changed:after-{last}", f"xs={xs!r} history={list(map(list, ops))!r}: the lazy list now "
                f"enumerates {final!r} / {final2!r}", len(ops))
    return None


def _base(o):
    return o[1] if o[0] in ("c", "d") else o[0]


def _nontrivial(ops):
    return len(ops) >= 2 and any(_base(o) in FORCING_PARTIAL for o in ops[:-1])


def _jsonable_xs(xs):
    return [x if not isinstance(x, tuple) else list(x) for x in xs]


# ---- exhaustive ----------------------------------------------------------
def _shard_exh(rec, arg):
    shard, nshards, maxlen, H = arg
    lists = [list(t) for L in range(maxlen + 1) for t in itertools.product((0, 1, 2), repeat=L)]
    idx = 0
    for xs in lists:
        for h in range(0, H + 1):
            for ops in itertools.product(FIXED_OPS, repeat=h):
                idx += 1
                if idx % nshards != shard:
                    continue
                r = run_history(xs, ops)
                rec.case(nontrivial=_nontrivial(ops), cls=f"exh-history-len{h}")
                if r:
                    rec.fail(r[0], {"xs": xs, "ops": [list(o) for o in ops[: r[2] + 1]]}, r[1])
    if shard == 0:
        rec.sample({"xs": [0, 1, 2], "history": [["idx", 1], ["neg", 1], ["len"]]})


INTERLEAVE_OPS = [
    ("idx", 0), ("idx", 1), ("partial", 1), ("len",), ("mkcopy",),
    ("c", "idx", 0), ("c", "idx", 1), ("c", "partial", 1), ("c", "partial", 2), ("c", "listify"), ("c", "reversed"),
    ("mkcopy2",), ("d", "idx", 0), ("d", "listify"),
]


def _shard_interleave(rec, arg):
    shard, nshards, H = arg
    lists = [[], [0], [0, 1], [0, 1, 2], [1, 1, 0]]
    idx = 0
    for xs in lists:
        for h in range(2, H + 1):
            for ops in itertools.product(INTERLEAVE_OPS, repeat=h):
                idx += 1
                if idx % nshards != shard:
                    continue
                if ("mkcopy",) not in ops:
                    continue
                r = run_history(xs, ops)
                rec.case(nontrivial=_nontrivial(ops), cls=f"exh-interleave-len{h}")
                if r:
                    rec.fail(r[0], {"xs": xs, "ops": [list(o) for o in ops[: r[2] + 1]]}, r[1])
    if shard == 0:
        rec.sample({"xs": [0, 1, 2], "history": [["idx", 0], ["mkcopy"], ["c", "idx", 0], ["idx", 1], ["c", "idx", 1]]})


# ---- state machine --------------------------------------------------------
ELEM = st.one_of(st.integers(-3, 9), st.integers(0, 2), st.text("ab", max_size=2),
                 st.lists(st.integers(0, 3), max_size=2))


H = st.sampled_from([0, 0, 1])


def make_machine(rec):
    class LazyListVsList(RuleBasedStateMachine):
        def __init__(self):
            super().__init__()
            self.xs = []
            self.ops = []
            self.ll = LazyList(iter([]))
            self.cp = None
            self.dead = False

        @initialize(xs=st.lists(ELEM, max_size=8))
        def init(self, xs):
            self.xs = xs
            self.ll = LazyList(iter(list(xs)))

        def _step(self, op, h=0):
            if self.dead:
                return
            if h and self.cp is None:
                h = 0
            if h:
                self.ops.append(("c",) + tuple(op))
                r = observe(self.cp, self.xs, op)
            else:
                self.ops.append(op)
                r = observe(self.ll, self.xs, op)
            if r is None:
                return
            got, want = r
            if got != want:
                self.dead = True
                res = run_history(self.xs, self.ops)  # recompute signature on a fresh object
                if res:
                    rec.fail(res[0], {"xs": self.xs, "ops": [list(o) for o in self.ops[: res[2] + 1]]}, res[1])
                else:
                    rec.fail("C13:not-reproducible", {"xs": self.xs, "ops": [list(o) for o in self.ops]},
                             f"divergence {got!r} vs {want!r} not reproduced on a fresh lazy list")

        @rule()
        def mkcopy(self):
            if self.dead:
                return
            self.ops.append(("mkcopy",))
            self.cp = deep_copy(self.ll)

        @rule(i=st.integers(0, 12), h=H)
        def idx(self, i, h):
            self._step(("idx", i), h)

        @rule(k=st.integers(-2, 3), h=H)
        def idx_rel(self, k, h):
            self._step(("idx_rel", k), h)

        @rule(k=st.integers(1, 3), h=H)
        def neg(self, k, h):
            self._step(("neg", k), h)

        @rule(a=st.one_of(st.none(), st.integers(-9, 10)), b=st.one_of(st.none(), st.integers(-9, 10)),
              c=st.one_of(st.none(), st.integers(1, 3), st.just(-1)), h=H)
        def slc(self, a, b, c, h):
            self._step(("slice", a, b, c), h)

        @rule(h=H)
        def length(self, h):
            self._step(("len",), h)

        @rule(h=H)
        def iterate(self, h):
            self._step(("iter",), h)

        @rule(k=st.integers(0, 5), h=H)
        def partial(self, k, h):
            self._step(("partial", k), h)

        @rule(h=H)
        def truth(self, h):
            self._step(("bool",), h)

        @rule(v=st.one_of(ELEM, st.just(7)))
        def contains(self, v):
            self._step(("in", v))

        @rule(kind=st.sampled_from(["same", "longer", "prefix", "empty", "front", "lastdiff", "suffix"]), lazy=st.booleans(), h=H)
        def equal(self, kind, lazy, h):
            self._step(("eq_lazy" if lazy else "eq_list", kind), h)

        @rule(v=ELEM)
        def count(self, v):
            self._step(("count", v))

        @rule(h=H)
        def rev(self, h):
            self._step(("reversed",), h)

        @rule(k=st.one_of(st.none(), st.integers(0, 4)))
        def copy(self, k):
            self._step(("copy", k))

        @rule(k=st.integers(-2, 9), rel=st.booleans())
        def has_ind(self, k, rel):
            self._step(("has_ind", k, rel))

        @rule(h=H)
        def listify(self, h):
            self._step(("listify",), h)

        def teardown(self):
            ops = [tuple(o) for o in self.ops]
            cls = ["sm-history", f"sm-len{min(len(ops), 12)}"]
            for o in ops:
                if o[0] == "slice":
                    cls.append("sm-slice-" + slice_class(o, len(self.xs)))
                if o[0] == "c":
                    cls.append("sm-observes-copy")
            rec.case(key=(repr(self.xs), repr(ops)), nontrivial=_nontrivial(ops), cls=cls)
            if not self.dead:
                res = run_history(self.xs, ops)
                if res:
                    rec.fail(res[0], {"xs": self.xs, "ops": [list(o) for o in ops[: res[2] + 1]]}, res[1])
            if len(rec.samples) < 6 and len(ops) >= 4:
                rec.sample({"xs": self.xs, "history": [list(o) for o in ops]})

    return LazyListVsList


def _shard_sm(rec, arg):
    seed, n = arg
    machine = hypothesis.seed(seed)(make_machine(rec))
    run_state_machine_as_test(machine, settings=settings(
        max_examples=n, stateful_step_count=12, database=None, deadline=None, derandomize=False,
        phases=[Phase.generate], report_multiple_bugs=False, suppress_health_check=list(HealthCheck), print_blob=False))


def run(rec, tier, seed):
    quick = tier == "quick"
    H = 3 if quick else 4
    ns = campaign.NCPU * (1 if quick else 8)
    campaign.parallel(rec, _shard_exh, [(s, ns, 3, H) for s in range(ns)])
    rec.exhaustive.append(f"lists of length 0..3 over {{0,1,2}} x all histories of length<={H} over {len(FIXED_OPS)} operations")
    HI = 5 if quick else 6
    campaign.parallel(rec, _shard_interleave, [(s, ns, HI) for s in range(ns)])
    rec.exhaustive.append(f"copy/original interleavings: 5 lists x all histories of length<={HI} over {len(INTERLEAVE_OPS)} operations containing a copy")
    n = 400 if quick else 20000
    campaign.parallel(rec, _shard_sm, [(seed * 1000 + i, n) for i in range(campaign.NCPU)])
    rec.notes["n_fixed_ops"] = len(FIXED_OPS)


def replay(case):
    xs = case["xs"]
    ops = [tuple(o) for o in case["ops"]]
    for o in ops:
        if not o or o[0] not in {"idx", "idx_rel", "neg", "slice", "len", "iter", "partial", "bool", "in", "eq_list",
                                 "eq_lazy", "count", "reversed", "copy", "has_ind", "listify", "mkcopy", "c", "mkcopy2", "d"}:
            return None
    r = run_history(xs, ops)
    return (r[0], r[1]) if r else None
