"""C14 - finite prefixes of infinite lists are computed lazily and terminate.

An instrumented infinite source (1, 2, 3, ... as ints or as strings) counts how
many items are pulled from it and raises PullBudgetExceeded (a BaseException)
past the allowed bound.  A catalogue of transformations from exactly the
families the property names is applied (alone and in compositions of up to 3),
then the first n items are taken (nẎ) or the item at index n (n i), n <= 40.
Oracle: the run finishes within deterministic fuel and the source was pulled at
most  2 * d + 8  times, where d is the composed demand of the catalogue entries
(each entry declares how many input items m outputs need: linear, fixed).
"""
from __future__ import annotations

import math

from hypothesis import strategies as st

from vx import campaign, harness
from vx.harness import LazyList, norm

RULE = ("catalogue entries and Hypothesis-generated compositions (<=3) x n x access kind x source kind; non-trivial = "
        "n >= 1; distinct by (composition, n, access kind, source kind)")
ASSUMPTIONS = [
    "termination is decided by a deterministic step budget (line events), never by wall clock",
    "the declared demand functions are part of the check (listed in the evidence); the allowed bound is 2*d+8 pulls",
    "only laziness and termination are claimed here, not the values of the prefix",
]


class PullBudgetExceeded(BaseException):
    pass


def make_source(kind, bound, counter):
    def gen():
        i = 0
        while True:
            i += 1
            counter[0] += 1
            if counter[0] > bound:
                raise PullBudgetExceeded()
            yield i if kind == "int" else str(i)

    return LazyList(gen(), isinf=True)


def c2(m):
    return math.ceil(m / 2) + 1


# name: (program piece, demand(m), source kinds)
CATALOGUE = {
    "map-ƛ": ("ƛd;", lambda m: m, ("int", "str")),
    "map-M": ("λd;M", lambda m: m, ("int", "str")),
    "map-v": ("vd", lambda m: m, ("int", "str")),
    "map-dec": ("ƛ‹;", lambda m: m, ("int",)),
    "filter-'": ("'2%;", lambda m: 2 * m + 1, ("int",)),
    "filter-F": ("λ2%;F", lambda m: 2 * m + 1, ("int",)),
    "filter-3": ("'3%;", lambda m: 2 * m + 2, ("int",)),
    "zip-inf": ("Þ∞Z", lambda m: m, ("int", "str")),
    "zip-self": ("z", lambda m: m, ("int", "str")),
    "interleave": ("Þ∞Y", c2, ("int", "str")),
    "prefixes": ("K", lambda m: m, ("int", "str")),
    "cumulative-sums": ("¦", lambda m: m + 1, ("int", "str")),
    "deltas": ("¯", lambda m: m + 1, ("int",)),
    "windows-2": ("2l", lambda m: m + 1, ("int", "str")),
    "windows-3": ("3l", lambda m: m + 2, ("int", "str")),
    "chunks-3": ("3ẇ", lambda m: 3 * m, ("int", "str")),
    "chunks-2": ("2ẇ", lambda m: 2 * m, ("int", "str")),
    "flatten": ("ƛ:\";f", c2, ("int", "str")),
    "uniquify": ("U", lambda m: m, ("int", "str")),
    "enumerate": ("ė", lambda m: m, ("int", "str")),
    "prepend": ("5p", lambda m: m, ("int", "str")),
    "append-to-list": ("⟨9|8⟩$J", lambda m: m, ("int", "str")),
    "slice-from-3": ("3ȯ", lambda m: m + 3, ("int", "str")),
    "behead": ("Ḣ", lambda m: m + 1, ("int", "str")),
    "every-2nd": ("2Ḟ", lambda m: 2 * m, ("int", "str")),
    "add-1": ("1+", lambda m: m, ("int", "str")),
    "sub-2": ("2-", lambda m: m, ("int",)),
    "mul-3": ("3*", lambda m: m, ("int", "str")),
    "halve": ("½", lambda m: m, ("int",)),
    "negate": ("N", lambda m: m, ("int", "str")),
    "double": ("d", lambda m: m, ("int", "str")),
    "increment": ("›", lambda m: m, ("int",)),
    "decrement": ("‹", lambda m: m, ("int",)),
    "square": ("²", lambda m: m, ("int",)),
    "add-inf": ("Þ∞+", lambda m: m, ("int", "str")),
    "less-than-inf": ("Þ∞<", lambda m: m, ("int",)),
    # the infinite list combined with a FINITE list (the finite side runs out first)
    "interleave-finite": ("⟨7|8⟩Y", lambda m: max(math.ceil(m / 2), m - 2) + 1, ("int", "str")),
    "interleave-finite-first": ("⟨7|8⟩$Y", lambda m: max(math.ceil(m / 2), m - 2) + 1, ("int", "str")),
    "interleave-empty": ("0ʁY", lambda m: m + 1, ("int", "str")),
    "zip-finite": ("⟨7|8⟩Z", lambda m: m, ("int", "str")),
    "add-finite": ("⟨7|8⟩+", lambda m: m, ("int", "str")),
    "zipmap": ("⁽dZ", lambda m: m, ("int", "str")),
    "zipmap-lambda": ("λ2*;Z", lambda m: m, ("int",)),
}
# result items are lists for these (so a following arithmetic entry still has a meaning but different cost): keep
# compositions to entries whose output items are scalars unless the next entry is shape-agnostic
SHAPE_AGNOSTIC = {"uniquify", "zip-inf", "zip-self", "interleave", "prefixes", "windows-2", "windows-3", "chunks-3", "chunks-2", "uniquify", "enumerate",
                  "prepend", "append-to-list", "slice-from-3", "behead", "every-2nd", "map-ƛ", "map-M", "map-v", "double", "add-1", "mul-3",
                  "negate", "add-inf", "flatten", "interleave-finite", "interleave-finite-first", "interleave-empty", "zip-finite", "zipmap"}
LIST_ITEMS = {"zip-finite", "zipmap", "zipmap-lambda", "zip-inf", "zip-self", "prefixes", "windows-2", "windows-3", "chunks-3", "chunks-2", "enumerate"}
DATA_DEPENDENT = {"filter-'", "filter-F", "filter-3", "uniquify"}
# entries that are INJECTIVE on items (or on positions): their output items are pairwise distinct whenever their input
# items are, whatever those are (uniquify after them stays linear).  Not here: square (not injective on negatives),
# cumulative sums and `Þ∞+` (x_i + i): after `N`, `Þ∞+` yields 0, 0, 0, ... and uniquify rightly never gets a 2nd item
DISTINCT_ITEMS = {"enumerate", "windows-2", "windows-3", "chunks-3", "chunks-2", "prefixes", "zip-inf", "zip-self", "map-ƛ", "map-M", "map-v",
                  "map-dec", "add-1", "sub-2", "mul-3", "negate", "double", "increment", "decrement", "every-2nd"}
STREAM_PRESERVING = {"behead", "slice-from-3", "prepend"}  # the stream is still 1, 2, 3, ... up to a shift
_CODE = {}


def _code(text):
    c = _CODE.get(text)
    if c is None:
        c = _CODE[text] = harness.transpile(text)
    return c


def demand(comp, m):
    """comp is applied left to right (comp[0] first); demand composes right to left."""
    for name in reversed(comp):
        m = CATALOGUE[name][1](m)
    return m


def check(comp, n, access, kind):
    """-> ('discard', why) | None | (sig, msg)"""
    need = demand(comp, n + 1 if access != "take" else max(n, 1))
    bound = 2 * need + 8
    budget = 500_000 + 100_000 * need  # >= 10x the largest per-item cost measured on the pinned tree (filter through a lambda: ~7.6k line events per item)
    counter = [0]
    harness.reset_globals()
    ctx = harness.fresh_ctx()
    src = make_source(kind, bound, counter)
    stack = [src]
    ctx.stacks.append(stack)
    # "index-swapped": the documented number-first operand order of the index element (n <list> i)
    text = "".join(CATALOGUE[c][0] for c in comp) + (f"{n}Ẏ" if access == "take" else f"{n}i" if access == "index" else f"{n}$i")
    sig = f"C14:{'+'.join(comp)}:{access}:{kind}"
    try:
        r = harness.exec_py(_code(text), stack, ctx, budget=budget, wall=120)
        if r.exc is None:
            # the prefix is finite: look at all of it (that is what 'taking the first n' means)
            with harness.watchdog(120), harness.fuel(budget):
                out = norm(stack[-1], cap=500) if stack else None
            if isinstance(out, tuple) and out and out[0] == "prefix":
                return (sig + ":not-finite", f"program {text!r} on the infinite {kind} source: the first {n} items are not a finite list")
    except PullBudgetExceeded:
        return (sig + ":pulls", f"program {text!r} on the infinite {kind} source pulled more than {bound} items (declared demand {need}) for n={n}")
    except harness.FuelExhausted:
        return (sig + ":fuel", f"program {text!r} on the infinite {kind} source did not finish within the step budget for n={n} ({counter[0]} items pulled so far)")
    except harness.Inconclusive:
        return ("discard", "watchdog")
    except RecursionError:
        return ("discard", "RecursionError")
    if r.exc is not None:
        if isinstance(r.exc, harness.FuelExhausted):
            return (sig + ":fuel", f"program {text!r} on the infinite {kind} source did not finish within the step budget for n={n} ({counter[0]} items pulled so far)")
        if isinstance(r.exc, harness.Inconclusive):
            return ("discard", "watchdog")
        return ("discard", type(r.exc).__name__)
    return None


def _valid(comp, kind):
    for i, name in enumerate(comp):
        if kind not in CATALOGUE[name][2]:
            return False
        if i > 0 and comp[i - 1] in LIST_ITEMS and name not in SHAPE_AGNOSTIC:
            return False
        if name == "uniquify" and all(prev in DISTINCT_ITEMS or prev in STREAM_PRESERVING for prev in comp[:i]):
            continue  # every item of the input is new, so m outputs need about m inputs
        if name in DATA_DEPENDENT and any(prev not in STREAM_PRESERVING for prev in comp[:i]):
            # a filter / uniquify only has a linear demand on inputs it can keep finding items in:
            # after e.g. doubling, 'keep the odd ones' legitimately never yields anything
            return False
    return True


def _do(rec, comp, n, access, kind, cls):
    r = check(comp, n, access, kind)
    if r and r[0] == "discard":
        rec.discard(r[1])
        rec.classes["discarded " + "+".join(comp)] += 1
        return
    rec.case(key=(tuple(comp), n, access, kind), nontrivial=n >= 1, cls=[cls, f"len{len(comp)}", access, kind])
    if r:
        rec.fail(r[0], {"comp": list(comp), "n": n, "access": access, "kind": kind}, r[1])


def _shard_single(rec, arg):
    names, ns_list = arg
    for name in names:
        for kind in CATALOGUE[name][2]:
            for n in ns_list:
                for access in ("take", "index", "index-swapped"):
                    _do(rec, [name], n, access, kind, "catalogue-single")
    if names and names[0] == "map-ƛ":
        rec.sample({"composition": ["filter-'", "chunks-3"], "program": "'2%;3ẇ5Ẏ", "declared_demand": demand(["filter-'", "chunks-3"], 5)})


# consumers whose demand depends on what the earlier stages let through (equality of items, truthiness of partial results)
SENSITIVE_LAST = ["uniquify", "cumulative-sums", "deltas", "filter-'", "behead", "zipmap"]


def _shard_triples(rec, arg):
    """every valid composition (a, b, c) with c one of the data-sensitive consumers, and every valid pair"""
    shard, nshards, n_list = arg
    names = list(CATALOGUE)
    i = 0
    comps = [[a, b] for a in names for b in names] + [[a, b, c] for a in names for b in names for c in SENSITIVE_LAST]
    for comp in comps:
        for kind in ("int", "str"):
            if not _valid(comp, kind):
                continue
            i += 1
            if i % nshards != shard:
                continue
            n = n_list[i % len(n_list)]
            _do(rec, comp, n, "take" if (i // len(n_list)) % 2 == 0 else "index", kind, "exhaustive-pairs-and-sensitive-triples")


def _shard_hyp(rec, arg):
    seed, n_ex = arg
    names = list(CATALOGUE)

    def t(comp, n, access, kind):
        if not _valid(comp, kind):
            rec.discard("composition-not-applicable")
            return
        _do(rec, comp, n, access, kind, "composition")
        if len(rec.samples) < 5 and len(comp) == 3:
            rec.sample({"composition": comp, "n": n, "access": access, "source": kind, "declared_demand": demand(comp, n + 1)})

    campaign.hyp_run(t, {"comp": st.lists(st.sampled_from(names), min_size=2, max_size=3), "n": st.integers(0, 40),
                         "access": st.sampled_from(["take", "index", "index", "index-swapped"]), "kind": st.sampled_from(["int", "int", "str"])}, seed, n_ex)


def run(rec, tier, seed):
    quick = tier == "quick"
    ns = campaign.NCPU
    names = list(CATALOGUE)
    n_list = [0, 1, 2, 5, 17, 40] if quick else list(range(0, 41))
    campaign.parallel(rec, _shard_single, [(names[i::ns], n_list) for i in range(ns)])
    rec.exhaustive.append(f"every catalogue entry ({len(names)}) x source kinds x n in {n_list if quick else '0..40'} x take/index")
    campaign.parallel(rec, _shard_triples, [(s, ns * 2, [2, 5, 17] if quick else [1, 2, 3, 5, 9, 17, 40]) for s in range(ns * 2)])
    rec.exhaustive.append(f"every valid pair of catalogue entries and every valid triple ending in one of {SENSITIVE_LAST} (one n and one access kind each)")
    n_ex = 250 if quick else 6000
    campaign.parallel(rec, _shard_hyp, [(seed * 1000 + i, n_ex) for i in range(ns)])
    rec.notes["catalogue"] = {k: v[0] for k, v in CATALOGUE.items()}
    rec.notes["demand_at_m=10"] = {k: v[1](10) for k, v in CATALOGUE.items()}


def replay(case):
    comp = case.get("comp")
    if not isinstance(comp, list) or not (1 <= len(comp) <= 3) or any(c not in CATALOGUE for c in comp):
        return None
    n, access, kind = case.get("n"), case.get("access"), case.get("kind")
    if not isinstance(n, int) or isinstance(n, bool) or not (0 <= n <= 40) or access not in ("take", "index", "index-swapped") or kind not in ("int", "str"):
        return None
    if not _valid(comp, kind):
        return None
    r = check(comp, n, access, kind)
    if r and r[0] == "discard":
        return None
    return r
