"""C15 - compression and base-conversion codecs round-trip.

  øC  positive integers       -> »..» literal; run it; must push exactly n
  øc  strings over [a-z ] not starting with a space -> «..« literal; run it
  øD  printable ASCII (no backslash / back-quote)   -> `..` literal; run it with
      dictionary compression on; also len(literal) <= len(s) + 2
  τ β non-negative n, base b >= 2: digits all in [0, b) and β(τ(n, b), b) == n
Boundary emphasis: b^k - 1, b^k, b^k + 1.
"""
from __future__ import annotations

import itertools
import string

from hypothesis import strategies as st

from vx import campaign, harness
from vx.harness import vyxal

RULE = ("values enumerated exhaustively in ranges plus boundary values b^k-1, b^k, b^k+1 and Hypothesis-generated "
        "large values / strings; non-trivial = value >= base (>= 2 digits or characters) or a string containing a "
        "dictionary word; distinct by (codec, value[, base])")
ASSUMPTIONS = [
    "compressed text is evaluated by running it as a program (transpile + exec, one namespace)",
    "øD strings are printable ASCII without backslash and back-quote, as the property states",
]

E = vyxal.elements
WORDS = None


def _words():
    global WORDS
    if WORDS is None:
        ws = [w for w in vyxal.dictionary.contents if w.isascii() and w.isalpha()]
        WORDS = ws[::37][:600] + [w for w in vyxal.dictionary.small_dictionary if w.isascii() and w.isalpha()][:80]
    return WORDS


def _run_literal(text, dc=True):
    r = harness.run_program(text, dict_compress=dc, budget=1_000_000)
    if r.exc is not None:
        raise r.exc
    return r.stack


def check(kind, v, b=None):
    """-> None or (sig, msg)"""
    ctx = harness.fresh_ctx()
    harness.reset_globals()
    try:
        if kind == "øC":
            text = E.base_255_number_compress(v, ctx)
            if not (isinstance(text, str) and text.startswith("»") and text.endswith("»") and "»" not in text[1:-1]):
                return ("C15:øC:malformed-literal", f"øC({v}) = {text!r} is not one »…» literal")
            got = _run_literal(text)
            if len(got) != 1 or harness.exact_number(got[0]) != v:
                return ("C15:øC:roundtrip", f"øC({v}) = {text!r} evaluates to {got!r}")
        elif kind == "øc":
            text = E.base_255_string_compress(v, ctx)
            if not (isinstance(text, str) and text.startswith("«") and text.endswith("«") and "«" not in text[1:-1]):
                return ("C15:øc:malformed-literal", f"øc({v!r}) = {text!r} is not one «…« literal")
            got = _run_literal(text)
            if got != [v]:
                return ("C15:øc:roundtrip", f"øc({v!r}) = {text!r} evaluates to {got!r}")
        elif kind == "øD":
            text = E.optimal_compress(v, ctx)
            if not isinstance(text, str):
                return ("C15:øD:not-a-string", f"øD({v!r}) returned {text!r}")
            if len(text) > len(v) + 2:
                return ("C15:øD:longer-than-plain", f"øD({v!r}) = {text!r} has {len(text)} characters, the plain literal {len(v) + 2}")
            got = _run_literal(text, dc=True)
            if got != [v]:
                return ("C15:øD:roundtrip", f"øD({v!r}) = {text!r} evaluates to {got!r}")
        elif kind == "τβ":
            import sympy

            # the value and the base both as Python ints (inputs, decompressed literals) and as sympy Integers (typed literals)
            for tag, vv, bb in (("", v, b), (":sympy-integers", sympy.Integer(v), sympy.Integer(b)), (":sympy-value", sympy.Integer(v), b)):
                digits = E.to_base(vv, bb, ctx)
                dl = list(digits)
                if not all(harness.exact_number(d) is not None and harness.exact_number(d).denominator == 1 and 0 <= harness.exact_number(d) < b for d in dl):
                    return ("C15:τ:digit-out-of-range" + tag, f"{v} τ {b} = {dl!r} has a digit outside [0, {b})" + tag)
                back = E.from_base(dl, bb, ctx)
                if harness.exact_number(back) != v:
                    return ("C15:τβ:roundtrip" + tag, f"{v} τ {b} = {dl!r}, and β of that is {back!r}" + tag)
        else:
            raise ValueError(kind)
    except (harness.FuelExhausted, harness.Inconclusive):
        raise
    except Exception as e:  # noqa: BLE001
        return (f"C15:{kind}:raises:{type(e).__name__}", f"{kind} on {v!r}" + (f" base {b}" if b else "") + f" raised {type(e).__name__}: {e}")
    return None


def check_kinds(body, order):
    """The same body text as compressed number, compressed string and plain string, evaluated in the
    given order in one process: each literal must evaluate by its own kind whatever came before."""
    cp = vyxal.encoding.codepage
    num_alpha, str_alpha, b27 = cp.replace("»", ""), cp.replace("«", ""), " abcdefghijklmnopqrstuvwxyz"

    def dec(alpha):
        n = 0
        for ch in body:
            n = n * len(alpha) + alpha.index(ch)
        return n

    def to27(n):
        out = ""
        while True:
            n, d = divmod(n, 27)
            out = b27[d] + out
            if n == 0:
                return out

    for kind in order:
        text, want = {"num": ("»" + body + "»", dec(num_alpha)), "str": ("«" + body + "«", to27(dec(str_alpha))),
                      "raw": ("`" + body + "`", body)}[kind]
        try:
            got = _run_literal(text, dc=False)
            ok = len(got) == 1 and (harness.exact_number(got[0]) == want if kind == "num" else got[0] == want)
            msg = f"{text!r} evaluated to {got!r}, expected [{want!r}]"
        except (harness.FuelExhausted, harness.Inconclusive):
            raise
        except Exception as e:  # noqa: BLE001
            ok, msg = False, f"{text!r} raised {type(e).__name__}: {e}"
        if not ok:
            return (f"C15:literal-kind-{kind}:after-other-kinds", f"body {body!r} evaluated as {' then '.join(order)} in one process: {msg}")
    return None


def _do(rec, kind, v, b=None, cls=None):
    r = check(kind, v, b)
    if kind == "øC":
        nt = v >= 255
    elif kind == "øc":
        nt = len(v) >= 2
    elif kind == "øD":
        nt = any(w in v.lower() for w in ("the", "and", "ing")) or len(v) >= 6
    else:
        nt = v >= b
    rec.case(key=(kind, str(v), b), nontrivial=nt, cls=[kind, cls or kind])
    if r:
        rec.fail(r[0], {"kind": kind, "v": (str(v) if isinstance(v, int) else v), "b": b}, r[1])


def _shard(rec, arg):
    what = arg[0]
    if what == "øC-range":
        _, lo, hi = arg
        for n in range(lo, hi):
            _do(rec, "øC", n, cls="øC-exhaustive")
    elif what == "øC-boundary":
        _, ks = arg
        for k in ks:
            for d in (-1, 0, 1):
                _do(rec, "øC", 255 ** k + d, cls="øC-boundary")
    elif what == "øc-exh":
        _, shard, nshards, maxlen = arg
        alpha = "abcdefghijklmnopqrstuvwxyz "
        i = 0
        for L in range(1, maxlen + 1):
            for tup in itertools.product(alpha, repeat=L):
                if tup[0] == " ":
                    continue
                i += 1
                if i % nshards != shard:
                    continue
                _do(rec, "øc", "".join(tup), cls=f"øc-exhaustive-len{L}")
    elif what == "øD-words":
        _, shard, nshards = arg
        ok = set(string.printable) - set("\\`")
        ws = list(dict.fromkeys(list(vyxal.dictionary.contents) + list(vyxal.dictionary.small_dictionary)))
        for i, w in enumerate(ws):
            if i % nshards != shard:
                continue
            if not w or any(c not in ok or c not in vyxal.encoding.codepage for c in w):
                rec.discard("dictionary-word-outside-domain")
                continue
            _do(rec, "øD", w, cls="øD-every-dictionary-word")
            _do(rec, "øD", "the " + w + " of 42!", cls="øD-every-dictionary-word-in-sentence")
        if shard == 0:
            rec.notes["dictionary_words"] = len(ws)
    elif what == "øD-phrase-pairs":
        # two small-dictionary phrases (one-character codes) directly next to each other, and a phrase next to a word
        _, shard, nshards, stride = arg
        ok = set(string.printable) - set("\\`")
        small = [w for w in dict.fromkeys(vyxal.dictionary.small_dictionary) if w and all(c in ok and c in vyxal.encoding.codepage for c in w)]
        words = [w for w in vyxal.dictionary.contents[100:4000:390] if w and all(c in ok for c in w)]
        i = 0
        for ia, a in enumerate(small):
            for ib, b_ in enumerate(small + words):
                i += 1
                if i % nshards != shard or (ia * 7 + ib) % stride != 0:
                    continue
                _do(rec, "øD", a + b_, cls="øD-adjacent-phrases")
                if ib % 3 == 0:
                    _do(rec, "øD", b_ + a + " " + a, cls="øD-adjacent-phrases")
    elif what == "kinds":
        _, shard, nshards = arg
        bodies = [a + b_ for a in "D8ƛλaZ¬+" for b_ in ["", "D", "λ", "1", "ɾ"]]
        i = 0
        for body in bodies:
            for order in itertools.permutations(["num", "str", "raw"]):
                i += 1
                if i % nshards != shard:
                    continue
                r = check_kinds(body, list(order))
                rec.case(key=(body, order), nontrivial=len(body) >= 2, cls=["literal-kinds-in-one-process"], n=3)
                if r:
                    rec.fail(r[0], {"kind": "kinds", "body": body, "order": list(order)}, r[1])
    elif what == "τβ-small":
        _, bases, nmax = arg
        for b in bases:
            for n in range(0, nmax + 1):
                _do(rec, "τβ", n, b, cls="τβ-small-n")
    elif what == "τβ-boundary":
        _, bases, kmax = arg
        for b in bases:
            for k in range(1, kmax + 1):
                for d in (-1, 0, 1):
                    _do(rec, "τβ", b ** k + d, b, cls="τβ-boundary")
    elif what == "hyp":
        _, seed, n = arg

        def t_num(v):
            _do(rec, "øC", v, cls="øC-random")

        campaign.hyp_run(t_num, {"v": st.one_of(st.integers(1, 10 ** 120), st.integers(1, 10 ** 9))}, seed, n)

        def t_str(s):
            _do(rec, "øc", s, cls="øc-random")

        s27 = st.text("abcdefghijklmnopqrstuvwxyz ", min_size=1, max_size=80).filter(lambda s: s[0] != " ")
        campaign.hyp_run(t_str, {"s": s27}, seed + 1, n)

        ascii_ok = [c for c in string.printable if c in vyxal.encoding.codepage and c not in "\\`"]
        frag = st.one_of(st.sampled_from(_words()), st.sampled_from(_words()).map(str.capitalize),
                         st.text(ascii_ok, max_size=4), st.just(" "), st.just(" "))

        def t_dict(parts):
            s = "".join(parts)
            _do(rec, "øD", s, cls="øD-random")
            if len(rec.samples) < 4 and len(s) > 12:
                rec.sample({"øD": s, "compressed": E.optimal_compress(s, harness.fresh_ctx())})

        campaign.hyp_run(t_dict, {"parts": st.lists(frag, max_size=8)}, seed + 2, n * 3)

        def t_base(b, v):
            _do(rec, "τβ", v, b, cls="τβ-random")

        campaign.hyp_run(t_base, {"b": st.integers(2, 300), "v": st.one_of(st.integers(0, 10 ** 60), st.integers(0, 10 ** 6))},
                         seed + 3, n)

        def t_pow(b, k, d):
            _do(rec, "τβ", b ** k + d, b, cls="τβ-boundary-random")

        campaign.hyp_run(t_pow, {"b": st.integers(2, 300), "k": st.integers(1, 40), "d": st.sampled_from([-1, 0, 1])}, seed + 4, n)
    if arg[0] == "øC-boundary":
        rec.sample({"øC": str(255 ** 3), "compressed": E.base_255_number_compress(255 ** 3, harness.fresh_ctx())})


def run(rec, tier, seed):
    quick = tier == "quick"
    ns = campaign.NCPU
    jobs = []
    top = 600 if quick else 15_000
    step = max(1, top // (ns * 4))
    jobs += [("øC-range", lo, min(top + 1, lo + step)) for lo in range(1, top + 1, step)]
    ks = list(range(1, 51))
    jobs += [("øC-boundary", ks[i::8]) for i in range(8)]
    jobs += [("øc-exh", s, ns, 2 if quick else 3) for s in range(ns)]
    jobs += [("øD-words", s, ns) for s in range(ns)]
    jobs += [("kinds", s, 4) for s in range(4)]
    jobs += [("øD-phrase-pairs", s, ns, 4 if quick else 1) for s in range(ns)]
    bases = list(range(2, 301))
    if quick:
        small = [2, 3, 7, 10, 16, 27, 36, 64, 255, 256, 300]
        jobs += [("τβ-small", small[i::4], 40) for i in range(4)]
        jobs += [("τβ-boundary", bases[i::ns], 3) for i in range(ns)]
    else:
        jobs += [("τβ-small", bases[i::ns * 4], 120) for i in range(ns * 4)]
        jobs += [("τβ-boundary", bases[i::ns * 2], 10) for i in range(ns * 2)]
    n = 25 if quick else 600
    jobs += [("hyp", seed * 1000 + i, n) for i in range(ns)]
    campaign.parallel(rec, _shard, jobs)
    rec.exhaustive.append(f"øD on every dictionary word (alone and in a sentence); øC on 1..{top}; øc on all strings of length<={2 if quick else 3} over [a-z ] not starting with a space; "
                          + ("τ/β on 11 bases x 0..40 and all bases 2..300 x b^k±1, k<=3" if quick else "τ/β on all bases 2..300 x 0..120 and b^k±1, k<=10"))


def replay(case):
    kind = case.get("kind")
    v = case.get("v")
    b = case.get("b")
    if kind in ("øC", "τβ"):
        try:
            v = int(v)
        except (TypeError, ValueError):
            return None
        if kind == "øC" and v < 1:
            return None
        if kind == "τβ" and (v < 0 or not isinstance(b, int) or b < 2):
            return None
    elif kind == "øc":
        if not isinstance(v, str) or not v or v[0] == " " or any(c not in "abcdefghijklmnopqrstuvwxyz " for c in v):
            return None
    elif kind == "øD":
        if not isinstance(v, str) or any(c not in string.printable or c in "\\`" or c not in vyxal.encoding.codepage for c in v):
            return None
    elif kind == "kinds":
        body, order = case.get("body"), case.get("order")
        if not isinstance(body, str) or not body or any(c not in vyxal.encoding.codepage or c in "»«`\\" for c in body):
            return None
        if not isinstance(order, list) or sorted(order) != ["num", "raw", "str"][: len(order)] and not set(order) <= {"num", "raw", "str"}:
            return None
        return check_kinds(body, order)
    else:
        return None
    return check(kind, v, b)
