"""C16 - list builtins obey their defining laws.

Each law runs the element's template on a preset stack (arguments given
eagerly and as lazy lists) and compares the exact, normalised result with a
definition written with builtins / itertools.  Where order is not part of the
definition the comparison is on multisets together with the cardinality.
Domains: all int lists of length <= N over -2..3 (N = 4 quick, 5 thorough);
second operands: a fixed family of short lists / small ints; Hypothesis lists
(and strings for the laws that make sense on strings) up to length 12.
"""
from __future__ import annotations

import copy, itertools
import math
from collections import Counter
from fractions import Fraction

from hypothesis import strategies as st

from vx import campaign, harness
from vx.harness import LazyList, norm

RULE = ("all int lists up to a length over -2..3 (eager and lazy) against ~45 laws, plus Hypothesis lists to length 12; "
        "non-trivial = length >= 2 with a repeated element; distinct by (law, arguments, eager/lazy)")
ASSUMPTIONS = [
    "definitions written in this file with builtins/itertools are the oracle",
    "max/min/product/head/tail/mean/mode are claimed on non-empty lists only; mode only when unique",
]

_CODE = {}


def run_el(op, *args):
    c = _CODE.get(op)
    if c is None:
        c = _CODE[op] = harness.transpile(op)
    harness.reset_globals()
    stack = list(args)
    r = harness.exec_py(c, stack, harness.fresh_ctx(), budget=3_000_000)
    if r.exc is not None:
        raise r.exc
    return [norm(x, cap=5000) for x in stack]


def N(v):
    if isinstance(v, (list, tuple)):
        return [N(x) for x in v]
    if isinstance(v, bool):
        return Fraction(int(v))
    if isinstance(v, int):
        return Fraction(v)
    return v


def _ms(v):
    """multiset of a list of (nested) values"""
    return Counter(repr(x) for x in v)


def _chunks(xs, k):
    return [xs[i:i + k] for i in range(0, len(xs), k)]


def _uniq(xs):
    out = []
    for x in xs:
        if x not in out:
            out.append(x)
    return out


def _groups(xs):
    return [list(g) for _, g in itertools.groupby(xs)]


def _interleave(a, b):
    out = []
    for x, y in zip(a, b):
        out += [x, y]
    m = min(len(a), len(b))
    return out + a[m:] + b[m:]


def _rows(xs, k):
    """a list of rows searched for a row (the items' own equality is what matters)"""
    return isinstance(k, list) and len(xs) > 0 and all(isinstance(x, list) for x in xs)


class Law:
    def __init__(self, name, op, arity, expect, pre=None, cmp="eq", nres=1):
        self.name, self.op, self.arity, self.expect, self.pre, self.cmp, self.nres = name, op, arity, expect, pre, cmp, nres


def _transpose_ragged(m):
    w = max((len(r) for r in m), default=0)
    return [[r[i] for r in m if i < len(r)] for i in range(w)]


LAWS = [
    Law("sort", "s", 1, lambda xs: sorted(xs)),
    Law("reverse", "Ṙ", 1, lambda xs: xs[::-1]),
    Law("reverse-involution", "ṘṘ", 1, lambda xs: xs),
    Law("uniquify", "U", 1, _uniq),
    Law("flatten-flat", "f", 1, lambda xs: xs),
    Law("sum", "∑", 1, lambda xs: sum(xs)),
    Law("product", "Π", 1, lambda xs: math.prod(xs), pre=lambda xs: len(xs) > 0),
    Law("max", "G", 1, lambda xs: max(xs), pre=lambda xs: len(xs) > 0),
    Law("min", "g", 1, lambda xs: min(xs), pre=lambda xs: len(xs) > 0),
    Law("cumulative-sums", "¦", 1, lambda xs: list(itertools.accumulate(xs))),
    Law("deltas", "¯", 1, lambda xs: [b - a for a, b in zip(xs, xs[1:])]),
    Law("uninterleave", "y", 1, lambda xs: [xs[::2], xs[1::2]], nres=2),
    Law("prefixes", "K", 1, lambda xs: [xs[:i + 1] for i in range(len(xs))]),
    Law("sublists", "ÞS", 1, lambda xs: [xs[i:j] for i in range(len(xs)) for j in range(i + 1, len(xs) + 1)], cmp="multiset"),
    Law("powerset", "ṗ", 1, lambda xs: [list(c) for r in range(len(xs) + 1) for c in itertools.combinations(xs, r)], cmp="multiset"),
    Law("permutations", "Ṗ", 1, lambda xs: [list(p) for p in itertools.permutations(xs)], cmp="multiset"),
    Law("counts", "Ċ", 1, lambda xs: [[v, xs.count(v)] for v in _uniq(xs)]),
    Law("group-consecutive", "Ġ", 1, _groups),
    # grading: any permutation of the indices that orders the items is a grading (the documentation says
    # "indices of elements to sort in ascending / descending order" and does not fix the order of ties)
    Law("grade-up", "⇧", 1, lambda xs: sorted(range(len(xs)), key=lambda i: xs[i]), cmp="grade-asc"),
    Law("grade-down", "⇩", 1, lambda xs: sorted(range(len(xs)), key=lambda i: xs[i], reverse=True), cmp="grade-desc"),
    Law("length", "L", 1, lambda xs: len(xs)),
    Law("head", "h", 1, lambda xs: xs[0], pre=lambda xs: len(xs) > 0),
    Law("tail", "t", 1, lambda xs: xs[-1], pre=lambda xs: len(xs) > 0),
    Law("enumerate", "ė", 1, lambda xs: [[i, x] for i, x in enumerate(xs)]),
    Law("all-equal", "≈", 1, lambda xs: int(len(set(xs)) <= 1)),
    Law("any", "a", 1, lambda xs: int(any(xs))),
    Law("all", "A", 1, lambda xs: int(all(xs)), pre=lambda xs: len(xs) > 0),
    Law("truthy-indices", "T", 1, lambda xs: [i for i, x in enumerate(xs) if x]),
    Law("behead", "Ḣ", 1, lambda xs: xs[1:]),
    Law("tail-remove", "Ṫ", 1, lambda xs: xs[:-1]),
    Law("run-length-encode", "øe", 1, lambda xs: [[g[0], len(g)] for g in _groups(xs)]),
    Law("all-unique", "Þu", 1, lambda xs: int(len(set(xs)) == len(xs))),
    Law("uniquify-mask", "ÞU", 1, lambda xs: [int(x not in xs[:i]) for i, x in enumerate(xs)]),
    Law("zip-self", "z", 1, lambda xs: [[x, x] for x in xs]),
    Law("mean", "ṁ", 1, lambda xs: Fraction(sum(xs), len(xs)), pre=lambda xs: len(xs) > 0),
    Law("mode", "∆M", 1, lambda xs: Counter(xs).most_common(1)[0][0],
        pre=lambda xs: len(xs) > 0 and (len(Counter(xs)) == 1 or Counter(xs).most_common(2)[0][1] > Counter(xs).most_common(2)[1][1])),
    Law("sort-is-permutation", "s", 1, lambda xs: xs, cmp="multiset"),
    # dyads: list x list
    Law("zip", "Z", 2, lambda xs, ys: [[a, b] for a, b in itertools.zip_longest(xs, ys, fillvalue=0)], pre=lambda xs, ys: isinstance(ys, list)),
    Law("interleave", "Y", 2, _interleave, pre=lambda xs, ys: isinstance(ys, list)),
    Law("interleave-uninterleave", "Yy", 2, lambda xs, ys: [xs, ys], pre=lambda xs, ys: isinstance(ys, list) and len(xs) == len(ys), nres=2),
    Law("merge", "J", 2, lambda xs, ys: xs + ys, pre=lambda xs, ys: isinstance(ys, list)),
    Law("cartesian-product", "Ẋ", 2, lambda xs, ys: [[a, b] for a in xs for b in ys], pre=lambda xs, ys: isinstance(ys, list), cmp="multiset"),
    Law("union", "∪", 2, lambda xs, ys: _uniq(xs + ys), pre=lambda xs, ys: isinstance(ys, list), cmp="set"),
    # dyads: list x int
    Law("count", "O", 2, lambda xs, k: xs.count(k), pre=lambda xs, k: isinstance(k, int) or _rows(xs, k)),
    Law("contains", "c", 2, lambda xs, k: int(k in xs), pre=lambda xs, k: isinstance(k, int) or _rows(xs, k)),
    Law("find", "ḟ", 2, lambda xs, k: xs.index(k) if k in xs else -1, pre=lambda xs, k: isinstance(k, int) or _rows(xs, k)),
    Law("remove", "o", 2, lambda xs, k: [x for x in xs if x != k], pre=lambda xs, k: isinstance(k, int) or _rows(xs, k)),
    Law("prepend", "p", 2, lambda xs, k: [k] + xs, pre=lambda xs, k: isinstance(k, int)),
    Law("index", "i", 2, lambda xs, k: xs[k % len(xs)], pre=lambda xs, k: isinstance(k, int) and k >= 0 and len(xs) > 0),
    Law("wrap", "ẇ", 2, lambda xs, k: _chunks(xs, k), pre=lambda xs, k: isinstance(k, int) and k >= 1),
    Law("slice-from", "ȯ", 2, lambda xs, k: xs[k:], pre=lambda xs, k: isinstance(k, int) and 0 <= k),
    Law("slice-to", "Ẏ", 2, lambda xs, k: xs[:k], pre=lambda xs, k: isinstance(k, int) and 0 <= k),
    # nested
    Law("sum-of-rows", "∑", 1, None),             # handled specially: rows of equal length, element-wise fold
    Law("cumulative-sums-of-rows", "¦", 1, None), # handled specially
    Law("flatten-nested", "f", 1, None),   # handled specially
    Law("transpose", "∩", 1, None),        # handled specially
]
def _subs(s):
    return [s[i:j] for i in range(len(s)) for j in range(i + 1, len(s) + 1)]


# laws on strings (the named elements' string overloads keep the same definitions, on characters)
STR_LAWS = [
    Law("str-sort", "s", 1, lambda s: "".join(sorted(s))),
    Law("str-reverse", "Ṙ", 1, lambda s: s[::-1]),
    Law("str-reverse-involution", "ṘṘ", 1, lambda s: s),
    Law("str-uniquify", "U", 1, lambda s: "".join(_uniq(list(s)))),
    Law("str-length", "L", 1, lambda s: len(s)),
    Law("str-uninterleave", "y", 1, lambda s: [s[::2], s[1::2]], nres=2),
    Law("str-sublists", "ÞS", 1, _subs, cmp="multiset"),
    Law("str-powerset", "ṗ", 1, lambda s: [list(c) for r in range(len(s) + 1) for c in itertools.combinations(s, r)], cmp="multiset"),
    Law("str-permutations", "Ṗ", 1, lambda s: ["".join(p) for p in itertools.permutations(s)], cmp="multiset", pre=lambda s: len(s) <= 5),
    Law("str-counts", "Ċ", 1, lambda s: [[c, s.count(c)] for c in _uniq(list(s))]),
    Law("str-group-consecutive", "Ġ", 1, lambda s: _groups(list(s)), pre=lambda s: len(s) >= 1),
    Law("str-zip", "Z", 2, lambda a, b: [[x, y] for x, y in itertools.zip_longest(a, b, fillvalue=0)], pre=lambda a, b: isinstance(b, str)),
    Law("str-interleave", "Y", 2, lambda a, b: "".join(_interleave(list(a), list(b))), pre=lambda a, b: isinstance(b, str)),
    Law("str-count", "O", 2, lambda a, b: a.count(b), pre=lambda a, b: isinstance(b, str) and len(b) >= 1),
    Law("str-contains", "c", 2, lambda a, b: int(b in a), pre=lambda a, b: isinstance(b, str)),
    Law("str-wrap", "ẇ", 2, lambda a, k: [a[i:i + k] for i in range(0, len(a), k)], pre=lambda a, k: isinstance(k, int) and k >= 1),
]
LAWS_ALL = LAWS + STR_LAWS
LAW_BY_NAME = {law.name: law for law in LAWS_ALL}
SECOND = [[], [1], [1, 5], [0, 0, 2], [3, 1, 2, 1], 0, 1, 2, 3, -1, 5]


def _sym(x):
    import sympy

    if isinstance(x, bool) or not isinstance(x, int):
        return [_sym(y) for y in x] if isinstance(x, list) else x
    return sympy.Integer(x)


def _mixed(x, flip=0):
    """every other integer (by position) a sympy Integer: the same value in both spellings inside one list"""
    import sympy

    if isinstance(x, list):
        return [_mixed(y, (i + flip) % 2) for i, y in enumerate(x)]
    if isinstance(x, bool) or not isinstance(x, int):
        return x
    return sympy.Integer(x) if flip else x


def _mk(xs, mode):
    """mode: 0 eager list of Python ints, 1 lazy list, 2 / 3 the same with every integer a sympy Integer
    (what number literals push; Python ints are what inputs and most builtins produce)."""
    if mode in (2, 3):
        return _mk(_sym(xs), mode - 2)
    if mode in (4, 5):
        return _mk(_mixed(xs, 1) if isinstance(xs, list) else xs, mode - 4)
    if mode in (6, 7):
        # items that are lists are LAZY lists (what ∩, ɾɾ, vs and every vectorised element produce); 7: the outer list too
        def lz(x):
            return LazyList(iter([lz(y) for y in x])) if isinstance(x, list) else x
        if not isinstance(xs, list):
            return xs
        inner = [lz(x) for x in xs]
        return LazyList(iter(inner)) if mode == 7 else inner
    if mode and isinstance(xs, list):
        return LazyList(iter([(_mk(x, 0) if isinstance(x, list) else x) for x in xs]))
    return [(list(x) if isinstance(x, list) else x) for x in xs] if isinstance(xs, list) else xs


MODES = (0, 1, 2, 3, 4, 5)
MODE_TAG = {0: "eager", 1: "lazy", 2: "eager, sympy Integers", 3: "lazy, sympy Integers", 4: "eager, Python ints and sympy Integers mixed",
            5: "lazy, Python ints and sympy Integers mixed", 6: "eager list of lazy rows", 7: "lazy list of lazy rows", False: "eager", True: "lazy"}


def check(name, args, lazy):
    """-> None or (sig, msg);  args: [xs] or [xs, second]"""
    law = LAW_BY_NAME[name]
    xs = args[0]
    if name == "flatten-nested":
        nested = [xs[:1], [xs[1:3], xs[3:4]], xs[4:]]
        want = [xs]
        call = [nested]
    elif name in ("sum-of-rows", "cumulative-sums-of-rows"):
        rows = _chunks(xs, 2)
        if len(xs) < 4 or len(rows[-1]) != 2:
            return None
        acc = [list(itertools.accumulate(col)) for col in zip(*rows)]       # column-wise running sums
        running = [[acc[0][i], acc[1][i]] for i in range(len(rows))]
        want = [running[-1]] if name == "sum-of-rows" else [running]
        call = [rows]
    elif name == "transpose":
        k = args[1]
        if not isinstance(k, int) or k < 1:
            return None
        m = _chunks(xs, k)
        if not m:
            return None
        want = [_transpose_ragged(m)]
        call = [m]
    else:
        if law.pre and not law.pre(*args):
            return None
        exp = law.expect(*[list(a) if isinstance(a, list) else a for a in args])
        want = exp if law.nres == 2 else [exp]
        call = list(args)
    tag = MODE_TAG[lazy]
    try:
        got = run_el(law.op, *[_mk(a, lazy) for a in call])
    except (harness.FuelExhausted, harness.Inconclusive):
        raise
    except Exception as e:  # noqa: BLE001
        return (f"C16:{name}:raises:{type(e).__name__}", f"{law.op} on {call!r} ({tag}) raised {type(e).__name__}: {e}")
    wantn = N(want)
    ok = len(got) == len(wantn)
    if ok:
        for g, w in zip(got, wantn):
            if law.cmp == "multiset":
                ok = ok and isinstance(g, list) and len(g) == len(w) and _ms(g) == _ms(w)
            elif law.cmp in ("grade-asc", "grade-desc"):
                xs_ = list(call[0])
                try:
                    idx = [int(v) for v in g]
                    vals = [xs_[i] for i in idx]
                    ok = ok and sorted(idx) == list(range(len(xs_))) and all(
                        (a <= b) if law.cmp == "grade-asc" else (a >= b) for a, b in zip(vals, vals[1:]))
                except Exception:  # noqa: BLE001
                    ok = False
            elif law.cmp == "set":
                ok = ok and isinstance(g, list) and set(map(repr, g)) == set(map(repr, w)) and len(g) == len(w)
            else:
                ok = ok and g == w
    if not ok:
        return (f"C16:{name}:value", f"{law.op} on {call!r} ({tag}) = {harness.jsonable(got)!r:.300}; the definition gives {harness.jsonable(wantn)!r:.300}")
    return None


def _nontrivial(xs):
    return isinstance(xs, (list, str)) and len(xs) >= 2 and len(set(map(repr, xs))) < len(xs)


def _do(rec, name, args, lazy, cls):
    r = check(name, args, lazy)
    rec.case(key=(name, repr(args), lazy), nontrivial=_nontrivial(args[0]), cls=[cls, f"law {name}", MODE_TAG[lazy]])
    if r:
        rec.fail(r[0], {"law": name, "args": args, "lazy": lazy}, r[1])


def _all_laws_on(rec, xs, cls, seconds=SECOND):
    for law in LAWS:
        if law.arity == 1 and law.name not in ("transpose",):
            if law.name in ("sum-of-rows", "cumulative-sums-of-rows") and len(xs) < 4:
                continue
            if law.name in ("permutations",) and len(xs) > 5:
                continue
            if law.name in ("powerset", "sublists") and len(xs) > 8:
                continue
            for lazy in MODES:
                _do(rec, law.name, [xs], lazy, cls)
        else:
            for s in seconds:
                if law.name == "cartesian-product" and isinstance(s, list) and len(s) * len(xs) > 40:
                    continue
                for lazy in MODES:
                    _do(rec, law.name, [xs, s], lazy, cls)


def _shard_exh(rec, arg):
    shard, nshards, maxlen = arg
    i = 0
    for L in range(0, maxlen + 1):
        for tup in itertools.product(range(-2, 4), repeat=L):
            i += 1
            if i % nshards != shard:
                continue
            _all_laws_on(rec, list(tup), "exhaustive")
    # rows: the fold laws on lists of lists (element-wise addition)
    j = 0
    for alphabet, L in (((-1, 0, 2), 4), ((0, 1), 6)):
        for tup in itertools.product(alphabet, repeat=L):
            j += 1
            if j % nshards != shard:
                continue
            for nm in ("sum-of-rows", "cumulative-sums-of-rows"):
                for lazy in MODES:
                    _do(rec, nm, [list(tup)], lazy, "exhaustive-rows")
    if shard == 0:
        rec.sample({"xs": [3, 1, 2, 1], "law": "grade-up", "expected": sorted(range(4), key=lambda i: [3, 1, 2, 1][i])})
        rec.sample({"xs": [1, 1, 0], "second": [1, 5], "law": "zip", "expected": [[1, 1], [1, 5], [0, 0]]})


def _str_laws_on(rec, s_, cls, seconds):
    for law in STR_LAWS:
        if law.arity == 1:
            _do(rec, law.name, [s_], False, cls)
        else:
            for sec in seconds:
                _do(rec, law.name, [s_, sec], False, cls)


# lists whose items are strings / lists: ordering laws must use the items' own order
ITEM_LAWS = ["sort", "sort-is-permutation", "reverse", "reverse-involution", "uniquify", "grade-up", "grade-down", "counts", "group-consecutive", "prefixes"]
ITEMS_STR = ["a", "b", "B", "ab", ""]
ITEMS_LST = [[], [1], [1, 2], [2], [1, 0], [1, -1]]
ROW_NEEDLES = [[], [1], [1, 2], [1, 0]]
# rows that differ only in their inner nesting (same leaves, same length): item equality must see the nesting (round 7)
ITEMS_NESTED = [[[1, 2], [3]], [[1], [2, 3]], [0, [1]], [[0], 1], [[0, 1]], [0, 1]]
NESTED_LAWS = ["uniquify", "reverse", "reverse-involution"]


def _nested_ok(x, depth=0):
    if isinstance(x, int) and not isinstance(x, bool):
        return True
    return isinstance(x, list) and depth < 3 and len(x) <= 3 and all(_nested_ok(y, depth + 1) for y in x)


def _item_ok(x):
    return isinstance(x, str) and len(x) <= 3 or (isinstance(x, list) and len(x) <= 3 and all(isinstance(y, int) and not isinstance(y, bool) for y in x))


def _shard_items(rec, arg):
    shard, nshards, maxlen = arg
    i = 0
    for pool in (ITEMS_STR, ITEMS_LST):
        for L in range(0, maxlen + 1):
            for tup in itertools.product(pool, repeat=L):
                i += 1
                if i % nshards != shard:
                    continue
                xs = [list(x) if isinstance(x, list) else x for x in tup]
                modes = (0, 1, 6, 7) if pool is ITEMS_LST else (0, 1)
                for nm in ITEM_LAWS:
                    for lazy in modes:
                        _do(rec, nm, [xs], lazy, "exhaustive-string-and-list-items")
                if pool is ITEMS_LST:
                    for needle in ROW_NEEDLES:
                        for nm in ("count", "contains", "find", "remove"):
                            for lazy in modes:
                                _do(rec, nm, [xs, list(needle)], lazy, "exhaustive-string-and-list-items")
    for L in range(1, maxlen + 1):
        for tup in itertools.product(ITEMS_NESTED, repeat=L):
            i += 1
            if i % nshards != shard:
                continue
            for nm in NESTED_LAWS:
                for lazy in (0, 1):
                    _do(rec, nm, [copy.deepcopy(list(tup))], lazy, "exhaustive-nested-rows")
    if shard == 0:
        rec.sample({"xs": ["b", "a", "B"], "law": "grade-down", "a valid grading": [0, 1, 2]})


def _shard_str(rec, arg):
    shard, nshards, maxlen = arg
    i = 0
    for L in range(0, maxlen + 1):
        for tup in itertools.product("ab c", repeat=L):
            i += 1
            if i % nshards != shard:
                continue
            _str_laws_on(rec, "".join(tup), "exhaustive-strings", ["", "a", "ab", "ba ", 1, 2, 3])
    if shard == 0:
        rec.sample({"string": "ab a", "law": "str-counts", "expected": [["a", 2], ["b", 1], [" ", 1]]})


def _shard_hyp(rec, arg):
    seed, n = arg
    ints = st.lists(st.integers(-9, 30), max_size=12)
    sec = st.one_of(st.lists(st.integers(-3, 9), max_size=6), st.integers(-2, 7))

    def t(xs, s):
        _all_laws_on(rec, xs, "random", seconds=[s])
        if len(rec.samples) < 6 and len(xs) > 6:
            rec.sample({"xs": xs, "second": s})

    campaign.hyp_run(t, {"xs": ints, "s": sec}, seed, n)

    def t2(s_, sec_):
        _str_laws_on(rec, s_, "random-strings", [sec_])

    campaign.hyp_run(t2, {"s_": st.text("abc xyz,", max_size=7), "sec_": st.one_of(st.text("abc x", max_size=3), st.integers(1, 4))}, seed + 5, n)


def run(rec, tier, seed):
    quick = tier == "quick"
    ns = campaign.NCPU
    maxlen = 3 if quick else 5
    campaign.parallel(rec, _shard_exh, [(s, ns * 2, maxlen) for s in range(ns * 2)])
    rec.exhaustive.append(f"all int lists of length<={maxlen} over -2..3, eager and lazy, items as Python ints and as sympy Integers, x {len(LAWS)} laws x {len(SECOND)} second operands")
    campaign.parallel(rec, _shard_items, [(s, ns, 3 if quick else 4) for s in range(ns)])
    rec.exhaustive.append(f"all lists of length<={3 if quick else 4} over 5 short strings and over 5 small int lists x {len(ITEM_LAWS)} ordering / grouping laws")
    campaign.parallel(rec, _shard_str, [(s, ns, 4 if quick else 6) for s in range(ns)])
    rec.exhaustive.append(f"all strings of length<={4 if quick else 6} over 'ab c' x {len(STR_LAWS)} string laws")
    n = 60 if quick else 2500
    campaign.parallel(rec, _shard_hyp, [(seed * 1000 + i, n) for i in range(ns)])
    rec.notes["n_laws"] = len(LAWS_ALL)


def replay(case):
    name = case.get("law")
    args = case.get("args")
    if name not in LAW_BY_NAME or not isinstance(args, list) or not args:
        return None
    if name.startswith("str-"):
        if not isinstance(args[0], str) or len(args) != LAW_BY_NAME[name].arity or (len(args) == 2 and not isinstance(args[1], (str, int))):
            return None
        return check(name, args, False)
    if not isinstance(args[0], list):
        return None
    if name in NESTED_LAWS and args[0] and len(args) == 1 and len(args[0]) <= 4 and all(isinstance(x, list) and _nested_ok(x) for x in args[0]) and not all(_item_ok(x) for x in args[0]):
        return check(name, args, 1 if case.get("lazy") in (1, True) else 0)
    if name in ITEM_LAWS and args[0] and all(_item_ok(x) for x in args[0]) and len(args) == 1:
        return check(name, args, int(case.get("lazy") or 0) if case.get("lazy") in (0, 1, 6, 7) else 0)
    if name in ("count", "contains", "find", "remove") and len(args) == 2 and isinstance(args[1], list) and args[0] and all(_item_ok(x) and isinstance(x, list) for x in args[0]) and _item_ok(args[1]):
        return check(name, args, int(case.get("lazy") or 0) if case.get("lazy") in (0, 1, 6, 7) else 0)
    if any(not isinstance(x, int) or isinstance(x, bool) for x in args[0]):
        return None
    law = LAW_BY_NAME[name]
    need = 2 if (law.arity == 2 or name == "transpose") else 1
    if len(args) != need:
        return None
    if need == 2 and not (isinstance(args[1], int) or (isinstance(args[1], list) and all(isinstance(x, int) for x in args[1]))):
        return None
    return check(name, args, int(case.get("lazy") or 0) if case.get("lazy") in (0, 1, 2, 3, 4, 5, True, False, None) else 0)
