"""C17 - number-theory builtins agree with their definitions.

Every check runs the element's own template on a preset stack and compares the
(normalised, exact) result with a naive reference written here: trial division,
divisor scan, gcd-count totient, multiplicative binomial, Euclid.  Inverse pairs
(b/B, H/H, square/root, double/halve) must compose to the identity.
Domains: n in 0..N exhaustively (N = 2 000 quick, 20 000 thorough), Hypothesis n
up to 10^9 (10^12 where the reference is cheap), all pairs (n, m) <= M for the
dyads (M = 60 quick, 300 thorough).
"""
from __future__ import annotations

import math

import sympy
from fractions import Fraction

from hypothesis import strategies as st

from vx import campaign, harness
from vx.harness import norm

RULE = ("n enumerated exhaustively in a range, pairs enumerated exhaustively for the dyads, plus Hypothesis-generated "
        "larger arguments, every argument given both as Python int and as sympy Integer; plus Hypothesis-drawn query "
        "histories of length <= 4, each run in a newly forked process; non-trivial = n >= 2 (pairs: both >= 2; "
        "histories: a query after the first); distinct by (element, arguments, representation)")
ASSUMPTIONS = [
    "textbook definitions as written in this file (trial division etc.) are the oracle",
    "prime factors / divisors / totient are claimed for n >= 1, previous prime for n >= 3, as those are the domains "
    "on which the textbook definitions exist",
]

_CODE = {}


def _code(op):
    c = _CODE.get(op)
    if c is None:
        c = _CODE[op] = harness.transpile(op)
    return c


RANGE_FLAGS = {"": {}, "M": {"range_start": 0}, "m": {"range_end": 0}, "Ṁ": {"range_start": 0, "range_end": 0}}


def run_el(op, *args, flags=""):
    """flags: the M / m / Ṁ flags move the bounds of IMPLICIT ranges only; explicit elements must not notice"""
    harness.reset_globals()
    stack = list(args)
    r = harness.exec_py(_code(op), stack, harness.fresh_ctx(**RANGE_FLAGS[flags]), budget=5_000_000)
    if r.exc is not None:
        raise r.exc
    return stack


# ---- naive references ---------------------------------------------------------
def ref_is_prime(n):
    if n < 2:
        return 0
    i = 2
    while i * i <= n:
        if n % i == 0:
            return 0
        i += 1
    return 1


def ref_factors(n):
    out, p = [], 2
    while p * p <= n:
        while n % p == 0:
            out.append(p)
            n //= p
        p += 1
    if n > 1:
        out.append(n)
    return out


def ref_divisors(n):
    small = [d for d in range(1, math.isqrt(n) + 1) if n % d == 0]
    return sorted(set(small + [n // d for d in small]))


def ref_gcd(a, b):
    while b:
        a, b = b, a % b
    return abs(a)


def ref_totient(n):
    if n <= 3000:
        return sum(1 for k in range(1, n + 1) if ref_gcd(k, n) == 1)
    res = n
    for p in sorted(set(ref_factors(n))):
        res = res // p * (p - 1)
    return res


def ref_binomial(n, r):
    if r < 0 or r > n:
        return 0
    num = den = 1
    for i in range(1, r + 1):
        num *= n - r + i
        den *= i
    return num // den


def ref_next_prime(n):
    k = n + 1
    while not ref_is_prime(k):
        k += 1
    return k


def ref_prev_prime(n):
    k = n - 1
    while not ref_is_prime(k):
        k -= 1
    return k


def F(x):
    return Fraction(x)


def FL(xs):
    return [Fraction(x) for x in xs]


MONADS = {
    # element: (min n, reference -> normalised expected, cost class)
    "æ": (0, lambda n: F(ref_is_prime(n)), "sqrt"),
    "ǐ": (1, lambda n: FL(ref_factors(n)), "sqrt"),
    "Ǐ": (1, lambda n: FL(sorted(set(ref_factors(n)))), "sqrt"),
    "K": (1, lambda n: FL(ref_divisors(n)), "sqrt"),
    "∆K": (1, lambda n: F(sum(ref_divisors(n)[:-1])), "sqrt"),
    "¡": (0, lambda n: F(math.prod(range(1, n + 1))), "small"),
    "∆ṫ": (1, lambda n: F(ref_totient(n)), "sqrt"),
    "∆Ṗ": (0, lambda n: F(ref_next_prime(n)), "sqrt"),
    "∆ṗ": (3, lambda n: F(ref_prev_prime(n)), "sqrt"),
    "b": (0, lambda n: FL(int(c) for c in format(n, "b")), "cheap"),
    "H": (0, lambda n: format(n, "x"), "cheap"),
    "²": (0, lambda n: F(n * n), "cheap"),
    "d": (0, lambda n: F(2 * n), "cheap"),
    "½": (0, lambda n: Fraction(n, 2), "cheap"),
    "ɾ": (0, lambda n: FL(range(1, n + 1)), "range"),
    "ʀ": (0, lambda n: FL(range(0, n + 1)), "range"),
    "ɽ": (0, lambda n: FL(range(1, n)), "range"),
    "ʁ": (0, lambda n: FL(range(0, n)), "range"),
    "∑": (0, lambda n: F(sum(int(c) for c in str(n))), "cheap"),
    "∆²": (0, lambda n: F(int(math.isqrt(n) ** 2 == n)), "cheap"),
    "₂": (0, lambda n: F(int(n % 2 == 0)), "cheap"),
    "₃": (0, lambda n: F(int(n % 3 == 0)), "cheap"),
    "∷": (0, lambda n: F(n % 2), "cheap"),
}
INVERSES = {
    # name: (program, min n)
    "b-B": ("bB", 0), "H-H": ("HH", 0), "square-root": ("²√", 0), "double-halve": ("d½", 0), "halve-double": ("½d", 0),
}
DYADS = {
    "ġ": lambda a, b: F(ref_gcd(a, b)),
    "∆Ŀ": lambda a, b: F(0 if a == 0 or b == 0 else a * b // ref_gcd(a, b)),
    "ƈ": lambda a, b: F(ref_binomial(a, b)),
}


_REP_TAG = {"int": "", "sym": ":sympy-integer", "mixed": ":int-and-sympy-integer"}
_REP_MSG = {"int": "", "sym": " (argument given as sympy Integer, as a literal would be)", "mixed": " (first argument a Python int, second a sympy Integer)"}


def check_monad(op, n, rep="int", flags=""):
    """rep: how the argument is represented - a Python int (inputs, results of builtins) or a sympy Integer (literals)."""
    lo, ref, _ = MONADS[op]
    if n < lo:
        return None
    want = ref(n)
    try:
        st_ = run_el(op, n if rep == "int" else sympy.Integer(n), flags=flags)
    except (harness.FuelExhausted, harness.Inconclusive):
        raise
    except Exception as e:  # noqa: BLE001
        return (f"C17:{op}:raises:{type(e).__name__}", f"{n} {op} raised {type(e).__name__}: {e}")
    if len(st_) != 1:
        return (f"C17:{op}:stack", f"{n} {op} left {len(st_)} values")
    got = norm(st_[0], cap=50_000)
    if got != want:
        return (f"C17:{op}:value" + _REP_TAG[rep] + (f":flag-{flags}" if flags else ""),
                f"{n} {op} = {harness.jsonable(got)!r:.200}, the definition gives {harness.jsonable(want)!r:.200}" + _REP_MSG[rep]
                + (f" (under the {flags} flag, which only moves implicit ranges)" if flags else ""))
    return None


def check_inverse(name, n):
    prog, lo = INVERSES[name]
    if n < lo:
        return None
    try:
        st_ = run_el(prog, n)
    except (harness.FuelExhausted, harness.Inconclusive):
        raise
    except Exception as e:  # noqa: BLE001
        return (f"C17:{name}:raises:{type(e).__name__}", f"{n} {prog} raised {type(e).__name__}: {e}")
    got = norm(st_[-1]) if st_ else None
    if len(st_) != 1 or got != F(n):
        return (f"C17:{name}:not-identity", f"{n} {prog} = {harness.jsonable(got)!r}, expected {n}")
    return None


def check_dyad(op, a, b, rep="int"):
    want = DYADS[op](a, b)
    try:
        st_ = run_el(op, *((a, b) if rep == "int" else (sympy.Integer(a), sympy.Integer(b)) if rep == "sym" else (a, sympy.Integer(b))))
    except (harness.FuelExhausted, harness.Inconclusive):
        raise
    except Exception as e:  # noqa: BLE001
        return (f"C17:{op}:raises:{type(e).__name__}", f"{a} {b} {op} raised {type(e).__name__}: {e}")
    got = norm(st_[-1]) if st_ else None
    if len(st_) != 1 or got != want:
        return (f"C17:{op}:value" + _REP_TAG[rep], f"{a} {b} {op} = {harness.jsonable(got)!r}, the definition gives {harness.jsonable(want)!r}" + _REP_MSG[rep])
    return None


def _do_n(rec, n, cls, ops=None, range_cap=3000, fact_cap=400):
    for op in (ops or MONADS):
        kind = MONADS[op][2]
        if kind == "range" and n > range_cap:
            continue
        if kind == "small" and n > fact_cap:
            continue
        for rep in ("int", "sym"):
            r = check_monad(op, n, rep)
            rec.case(key=(op, n, rep), nontrivial=n >= 2, cls=[cls, f"el {op}", f"argument as {rep}"])
            if r:
                rec.fail(r[0], {"kind": "monad", "op": op, "n": n, "rep": rep}, r[1])
        if n <= 40 or n % 97 == 0:
            for fl in ("M", "m", "Ṁ"):
                r = check_monad(op, n, "int", fl)
                rec.case(key=(op, n, "int", fl), nontrivial=n >= 2, cls=[cls, f"el {op}", f"under flag {fl}"])
                if r:
                    rec.fail(r[0], {"kind": "monad", "op": op, "n": n, "rep": "int", "flags": fl}, r[1])
    if ops is None:
        for name in INVERSES:
            r = check_inverse(name, n)
            rec.case(key=(name, n), nontrivial=n >= 2, cls=[cls, f"inverse {name}"])
            if r:
                rec.fail(r[0], {"kind": "inverse", "name": name, "n": n}, r[1])


def _shard(rec, arg):
    what = arg[0]
    if what == "range":
        _, lo, hi = arg
        for n in range(lo, hi):
            _do_n(rec, n, "exhaustive-n")
        if lo == 0:
            rec.sample({"n": 360, "K": [str(x) for x in ref_divisors(360)], "∆ṫ": ref_totient(360)})
    elif what == "pairs":
        _, rows, M = arg
        for a in rows:
            for b in range(0, M + 1):
                for op in DYADS:
                    for rep in ("int", "sym", "mixed"):
                        r = check_dyad(op, a, b, rep)
                        rec.case(key=(op, a, b, rep), nontrivial=a >= 2 and b >= 2, cls=["exhaustive-pair", f"el {op}", f"argument as {rep}"])
                        if r:
                            rec.fail(r[0], {"kind": "dyad", "op": op, "a": a, "b": b, "rep": rep}, r[1])
    elif what == "hyp":
        _, seed, n = arg
        sqrt_ops = [op for op, v in MONADS.items() if v[2] == "sqrt"]
        cheap_ops = [op for op, v in MONADS.items() if v[2] == "cheap"]

        def t_mid(v):
            _do_n(rec, v, "random-n<=1e9", ops=sqrt_ops)

        campaign.hyp_run(t_mid, {"v": st.one_of(st.integers(2, 10 ** 9), st.integers(2, 10 ** 6), st.integers(2, 2 ** 17),
                                                 st.integers(2, 31000).map(lambda p: p * p),
                                                 st.integers(1, 30).map(lambda k: 2 ** k - 1))}, seed, n)

        primes = [p for p in range(10 ** 6, 10 ** 6 + 3000) if ref_is_prime(p)] + [p for p in range(9_999_000, 10 ** 7) if ref_is_prime(p)][:60]

        def t_semi(p, q, e):
            # n is built from known primes, so the reference needs no factoring
            n = p * q * (p if e else 1)
            want = sorted([p, q] + ([p] if e else []))
            for op, exp in (("ǐ", FL(want)), ("Ǐ", FL(sorted(set(want)))), ("æ", F(0))):
                try:
                    got = norm(run_el(op, n)[0])
                    r = None if got == exp else (f"C17:{op}:value", f"{n} {op} = {harness.jsonable(got)!r}, the definition gives {harness.jsonable(exp)!r} (n = product of known primes)")
                except (harness.FuelExhausted, harness.Inconclusive):
                    raise
                except Exception as ex:  # noqa: BLE001
                    r = (f"C17:{op}:raises:{type(ex).__name__}", f"{n} {op} raised {ex!r}")
                rec.case(key=(op, n), nontrivial=True, cls=["constructed-semiprime", f"el {op}"])
                if r:
                    rec.fail(r[0], {"kind": "semi", "op": op, "p": p, "q": q, "e": e}, r[1])

        campaign.hyp_run(t_semi, {"p": st.sampled_from(primes), "q": st.sampled_from(primes), "e": st.booleans()}, seed + 9, max(30, n // 3))

        def t_big(v):
            _do_n(rec, v, "random-n<=1e12", ops=cheap_ops)
            for name in INVERSES:
                r = check_inverse(name, v)
                rec.case(key=(name, v), nontrivial=True, cls=["random-n<=1e12", f"inverse {name}"])
                if r:
                    rec.fail(r[0], {"kind": "inverse", "name": name, "n": v}, r[1])

        campaign.hyp_run(t_big, {"v": st.integers(0, 10 ** 12)}, seed + 1, n)

        def t_pair(a, b):
            for op in ("ġ", "∆Ŀ"):
                for rep in ("int", "sym", "mixed"):
                    r = check_dyad(op, a, b, rep)
                    rec.case(key=(op, a, b, rep), nontrivial=a >= 2 and b >= 2, cls=["random-pair", f"el {op}", f"argument as {rep}"])
                    if r:
                        rec.fail(r[0], {"kind": "dyad", "op": op, "a": a, "b": b, "rep": rep}, r[1])

        campaign.hyp_run(t_pair, {"a": st.integers(0, 10 ** 12), "b": st.integers(0, 10 ** 12)}, seed + 2, n)


# ---- cold histories: short query sequences, each in a newly forked process ---------------------------------
# State the builtins keep between calls (tables, memos) starts empty there, so an answer that depends on which
# queries came before - in particular on the very first one being large - is visible.
COLD_OPS = ["æ", "∆Ṗ", "∆ṗ", "ǐ", "K", "∆ṫ", "Ǐ", "∆K"]


def _cold_histories(seed, n):
    """Drawn with Hypothesis in the parent (nothing is executed here)."""
    out = []
    edge = [101 * 101, 101 * 103, 103 * 107, 127 * 131, 2 ** 15, 2 ** 16, 251 * 257, 1009 * 1013, 65521, 65537, 32749, 32771]
    num = st.one_of(st.integers(2, 2 ** 17), st.integers(9000, 70000), st.integers(2, 10 ** 7),
                    st.tuples(st.sampled_from(edge), st.integers(-3, 3)).map(lambda t: max(3, t[0] + t[1])))
    step = st.tuples(st.sampled_from(COLD_OPS), num, st.sampled_from(["int", "int", "sym"]))

    def t(h):
        out.append([list(x) for x in h])

    campaign.hyp_run(t, {"h": st.lists(step, min_size=1, max_size=4)}, seed, n)
    return out


def _shard_cold(rec, hist):
    for i, (op, n, rep) in enumerate(hist):
        r = check_monad(op, n, rep)
        rec.case(key=(repr(hist[: i + 1])), nontrivial=i >= 1, cls=["cold-history", f"cold-history step {i}", f"el {op}"])
        if r:
            rec.fail(r[0] + ":cold-history", {"kind": "cold", "hist": hist[: i + 1]}, r[1] + f" [as query {i + 1} of the history {hist[: i + 1]!r} in a new process]")
            return


# composites that fool weak primality tests: Carmichael numbers, strong pseudoprimes to the first prime bases
# (the least ones for bases {2}, {2,3}, {2,3,5}, {2,3,5,7}, ...) and the strong pseudoprimes to bases 2,3,5,7 below 10^12
PSEUDOPRIMES = [341, 561, 645, 1105, 1387, 1729, 1905, 2047, 2465, 2701, 2821, 3277, 4033, 4369, 4681, 6601, 8321, 8911, 10585, 15841, 29341, 41041,
                46657, 52633, 62745, 63973, 75361, 101101, 115921, 126217, 162401, 172081, 188461, 252601, 278545, 294409, 314821, 334153, 340561,
                399001, 410041, 449065, 488881, 512461, 825265, 1373653, 25326001, 321197185, 3215031751, 5394826801, 118670087467, 232250619601,
                307768373641, 315962312077, 354864744877, 457453568161, 528929554561, 546348519181, 602248359169]
BIG_PSEUDOPRIMES = [2152302898747, 3474749660383, 9746347772161, 341550071728321]   # checked against their known factorisations


def _shard_pseudo(rec, arg):
    shard, nshards = arg
    for i, n in enumerate(PSEUDOPRIMES):
        if i % nshards != shard:
            continue
        for op in ("æ", "ǐ", "∆Ṗ", "∆ṗ"):
            for m in ((n,) if op in ("æ", "ǐ") else (n - 1, n, n - 2)):
                for rep in ("int", "sym"):
                    r = check_monad(op, m, rep)
                    rec.case(key=(op, m, rep), nontrivial=True, cls=["pseudoprimes", f"el {op}"])
                    if r:
                        rec.fail(r[0] + ":pseudoprime", {"kind": "monad", "op": op, "n": m, "rep": rep}, r[1] + f" [near the pseudoprime {n}]")
    known = {2152302898747: [6763, 10627, 29947], 3474749660383: [1303, 16927, 157543], 9746347772161: [7, 11, 13, 17, 19, 31, 37, 41, 641],
             341550071728321: [10670053, 32010157]}
    for i, n in enumerate(BIG_PSEUDOPRIMES):
        if i % nshards != shard or math.prod(known[n]) != n:
            continue
        for rep in ("int", "sym"):
            try:
                got = norm(run_el("æ", n if rep == "int" else sympy.Integer(n))[0])
            except Exception as e:  # noqa: BLE001
                got = ("raises", repr(e))
            rec.case(key=("æ", n, rep), nontrivial=True, cls=["pseudoprimes", "el æ"])
            if got != F(0):
                rec.fail("C17:æ:value:pseudoprime", {"kind": "big-pseudo", "n": n, "rep": rep}, f"{n} æ = {harness.jsonable(got)!r}, but {n} = {' x '.join(map(str, known[n]))}")


def run(rec, tier, seed):
    quick = tier == "quick"
    ns = campaign.NCPU
    campaign.parallel(rec, _shard_pseudo, [(s, ns) for s in range(ns)])
    rec.exhaustive.append(f"{len(PSEUDOPRIMES) + len(BIG_PSEUDOPRIMES)} Carmichael numbers / strong pseudoprimes (and their neighbours for next / previous prime)")
    hists = _cold_histories(seed * 1000 + 77, 400 if quick else 6000)
    campaign.parallel(rec, _shard_cold, hists, fresh=True)
    rec.notes["cold_histories"] = len(hists)
    if hists:
        rec.sample({"cold-history": hists[min(3, len(hists) - 1)]})
    N = 2000 if quick else 20000
    M = 60 if quick else 300
    step = max(1, (N + 1) // (ns * 4))
    jobs = [("range", lo, min(N + 1, lo + step)) for lo in range(0, N + 1, step)]
    rows = list(range(0, M + 1))
    jobs += [("pairs", rows[i::ns], M) for i in range(ns)]
    n = 150 if quick else 5000
    jobs += [("hyp", seed * 1000 + i, n) for i in range(ns)]
    campaign.parallel(rec, _shard, jobs)
    rec.exhaustive.append(f"n in 0..{N} for {len(MONADS)} monads and {len(INVERSES)} inverse pairs; all pairs <= {M} for {len(DYADS)} dyads")


def replay(case):
    k = case.get("kind")
    try:
        if k == "monad" and case["op"] in MONADS and isinstance(case["n"], int) and case["n"] >= 0:
            if MONADS[case["op"]][2] in ("range", "small") and case["n"] > 3000:
                return None
            return check_monad(case["op"], case["n"], case.get("rep") if case.get("rep") in ("int", "sym") else "int",
                               case.get("flags") if case.get("flags") in RANGE_FLAGS else "")
        if k == "inverse" and case["name"] in INVERSES and isinstance(case["n"], int) and case["n"] >= 0:
            return check_inverse(case["name"], case["n"])
        if k == "dyad" and case["op"] in DYADS and all(isinstance(case[x], int) and case[x] >= 0 for x in "ab"):
            return check_dyad(case["op"], case["a"], case["b"], case.get("rep") if case.get("rep") in _REP_TAG else "int")
        if k == "semi" and case["op"] in ("ǐ", "Ǐ", "æ"):
            p, q, e = case["p"], case["q"], bool(case["e"])
            if not (isinstance(p, int) and isinstance(q, int) and 2 <= p < 10 ** 8 and 2 <= q < 10 ** 8 and ref_is_prime(p) and ref_is_prime(q)):
                return None
            n = p * q * (p if e else 1)
            want = sorted([p, q] + ([p] if e else []))
            exp = {"ǐ": FL(want), "Ǐ": FL(sorted(set(want))), "æ": F(0)}[case["op"]]
            try:
                got = norm(run_el(case["op"], n)[0])
            except Exception as ex:  # noqa: BLE001
                return (f"C17:{case['op']}:raises:{type(ex).__name__}", repr(ex))
            if got != exp:
                return (f"C17:{case['op']}:value", f"{n} {case['op']} = {harness.jsonable(got)!r}, the definition gives {harness.jsonable(exp)!r}")
            return None
        if k == "cold":
            hist = case["hist"]
            if not (isinstance(hist, list) and hist and all(isinstance(x, list) and len(x) == 3 and x[0] in COLD_OPS and isinstance(x[1], int)
                                                           and 0 <= x[1] <= 10 ** 9 and x[2] in ("int", "sym") for x in hist)):
                return None
            return _replay_cold(hist)
    except KeyError:
        return None
    return None


def _cold_child(hist, q):
    r = None
    try:
        for op, n, rep in hist:
            r = check_monad(op, n, rep)
            if r:
                r = (r[0] + ":cold-history", r[1] + f" [history {hist!r} in a new process]")
                break
    except BaseException as e:  # noqa: BLE001
        r = ("error", repr(e))
    q.put(r)


def _replay_cold(hist):
    """Replays run in a newly forked process too (the parent may already have exercised the builtins)."""
    import multiprocessing as mp

    ctx = mp.get_context("fork")
    q = ctx.Queue()
    pr = ctx.Process(target=_cold_child, args=(hist, q))
    pr.start()
    try:
        r = q.get(timeout=120)
    except Exception:  # noqa: BLE001
        r = None
    pr.join(5)
    if pr.is_alive():
        pr.kill()
    if r and r[0] == "error":
        return None
    return r
