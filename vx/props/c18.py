"""C18 - generated Python contains program text only as constants.

Oracle on transpile(s) whenever it returns code that compiles (uncompilable
output cannot execute anything: counted, not a violation):
  V   every identifier (Name, attribute, def / argument / keyword name) is in
      the vocabulary computed *from the tree under test* by transpiling a benign
      corpus (every element, modifier, structure and token kind with reserved
      names), or is a prefixed identifier  ^(VAR_|_lambda_)[A-Za-z0-9_]*$
  E   every expression edge (parent type, field, child type[, ctx]) and every
      statement type also occurs in the benign corpus
  D   for literal slots (string, ‛.., \\c, »..», «..«, ⁺c) whose payload stays inside
      the literal by the lexer's documented rules: the Python AST with constants
      and prefixed identifiers abstracted equals that of the same program with
      a benign payload
Domains: exhaustive payloads (length <= 2 quick / 3 thorough) over the
adversarial alphabet in 14 slots x 3 wrappers; all raw strings up to length
3 / 4; Hypothesis strings to length 60 over the code page and over Unicode.
"""
from __future__ import annotations

import ast
import os
import itertools
import re

from hypothesis import strategies as st

from vx import campaign, harness, progs

RULE = ("payloads enumerated exhaustively per slot and raw strings enumerated exhaustively up to a length, plus "
        "Hypothesis strings; non-trivial = the payload / string contains a character outside [A-Za-z0-9_] and the "
        "output compiled; distinct by (program text, dictionary-compression setting)")
ASSUMPTIONS = [
    "the fixed vocabulary is what the tree under test emits for a benign corpus covering every template",
    "output that does not compile cannot run and is only counted",
    "a unary minus applied to a numeric constant is a number constant",
]

ALPHABET = ['"', "'", "\\", "\n", "(", ")", "[", "]", "^", "`", ":", ";", ",", "=", "a", "Z", "0", "_"]
class _Prefixed:
    """Identifiers the transpiler makes from program-chosen names or from its own counters / random tokens:
    a FIXED prefix followed by ASCII letters, digits and underscores.  The prefixes are learnt from the tree under
    test (on the pinned tree: VAR_ and _lambda_), not hard-coded, so that a tree which names its generated loop
    variables `_loopvar_12` is not reported:
      * every identifier that contains one of the corpus' marker names (qqa, qqf) gives the text before the marker;
      * every identifier that differs between two transpilations of the same program (a counter, a random token)
        gives the common part up to its last underscore.
    A marker name without anything in front of it is not a prefix (that would be program text used as a name)."""

    def __init__(self):
        self._re = None
        self.prefixes = None

    def _learn(self):
        found = set()
        for text in ["←qqa", "→qqa", "(qqa|1)", "@qqf:2:qqa|1;", "@qqf;", "λ1;", "3(1)", "1[2|3]", "⟨1|2⟩", "ƛ1;", "'1;", "µ1;", "{1|2}", "vλ1;", "⁽+", "3(λ1;)"]:
            for dc in (True, False):
                try:
                    a = list(_identifiers(ast.parse(harness.transpile(text, dc, False))))
                    b = list(_identifiers(ast.parse(harness.transpile(text, dc, False))))
                except Exception:  # noqa: BLE001
                    continue
                for x in a:
                    for mk in ("qqa", "qqf"):
                        if mk in x and x.index(mk) > 0:
                            found.add(x[: x.index(mk)])
                if len(a) == len(b):
                    for x, y in zip(a, b):
                        if x != y:
                            common = os.path.commonprefix([x, y])
                            if "_" in common:
                                found.add(common[: common.rindex("_") + 1])
        found = {f for f in found if len(f) >= 2 and re.fullmatch(r"[A-Za-z_][A-Za-z0-9_]*", f)}
        # a learnt prefix must not swallow a whole family of template names (e.g. a single underscore)
        self.prefixes = sorted(found, key=len, reverse=True) or ["VAR_", "_lambda_"]
        self._re = re.compile("^(" + "|".join(re.escape(f) for f in self.prefixes) + ")[A-Za-z0-9_]*$")

    def match(self, name):
        if self._re is None:
            self._learn()
        return self._re.match(name)


PREFIXED = _Prefixed()


# ---- abstraction of the generated Python -------------------------------------------
def _ident_ok(name, vocab):
    return name in vocab or bool(PREFIXED.match(name))


def _identifiers(tree):
    for node in ast.walk(tree):
        if isinstance(node, ast.Name):
            yield node.id
        elif isinstance(node, ast.Attribute):
            yield node.attr
        elif isinstance(node, (ast.FunctionDef, ast.AsyncFunctionDef, ast.ClassDef)):
            yield node.name
        elif isinstance(node, ast.arg):
            yield node.arg
        elif isinstance(node, ast.keyword):
            if node.arg is not None:
                yield node.arg
        elif isinstance(node, (ast.Import, ast.ImportFrom)):
            for a in node.names:
                yield a.name
                if a.asname:
                    yield a.asname
        elif isinstance(node, (ast.Global, ast.Nonlocal)):
            yield from node.names


def _edges(tree):
    out = set()
    for parent in ast.walk(tree):
        for field, value in ast.iter_fields(parent):
            vals = value if isinstance(value, list) else [value]
            for ch in vals:
                if not isinstance(ch, ast.AST):
                    continue
                if isinstance(ch, ast.stmt):
                    out.add(("stmt", type(ch).__name__))
                elif isinstance(ch, (ast.expr_context, ast.operator, ast.unaryop, ast.boolop, ast.cmpop)):
                    out.add((type(parent).__name__, field, type(ch).__name__))
                else:
                    ctx = getattr(ch, "ctx", None)
                    out.add((type(parent).__name__, field, type(ch).__name__, type(ctx).__name__ if ctx else ""))
    return out


class _Abstract(ast.NodeTransformer):
    def visit_Constant(self, node):
        return ast.Constant(value=type(node.value).__name__)

    def visit_UnaryOp(self, node):
        if isinstance(node.op, ast.USub) and isinstance(node.operand, ast.Constant) and isinstance(node.operand.value, (int, float)):
            return ast.Constant(value=type(node.operand.value).__name__)
        return self.generic_visit(node)

    def visit_Name(self, node):
        m = PREFIXED.match(node.id)
        if m:
            return ast.Name(id=m.group(1) + "*", ctx=node.ctx)
        return node

    def visit_Attribute(self, node):
        self.generic_visit(node)
        m = PREFIXED.match(node.attr)
        if m:
            node.attr = m.group(1) + "*"
        return node

    def visit_FunctionDef(self, node):
        self.generic_visit(node)
        m = PREFIXED.match(node.name)
        if m:
            node.name = m.group(1) + "*"
        return node


def abstract_dump(tree):
    return ast.dump(_Abstract().visit(tree))


def py_of(text, dc):
    """-> ('raise'|'nocompile'|'ok', tree|None, out)"""
    # dc: True / False = dictionary compression with ordinary lexing; "V" = compression on and
    # one-letter variable names (the V flag: variables_as_digraphs)
    try:
        out = harness.transpile(text, dc in (True, "V"), dc == "V")
    except Exception:  # noqa: BLE001
        return "raise", None, None
    try:
        tree = ast.parse(out)
        compile(out, "<vy>", "exec")
    except (SyntaxError, ValueError):
        return "nocompile", None, out
    return "ok", tree, out


# ---- vocabulary ----------------------------------------------------------------------
_VOCAB = None


def benign_corpus():
    E = lambda k: ["el", k]  # noqa: E731
    progs_ = []
    for k in progs.ELEMENT_KEYS:
        progs_.append([E(k)])
    for m, ar in progs.MOD_ARITY.items():
        progs_.append([["mod", m, [E("+")] * ar]])
        progs_.append([["mod", m, [["lam", None, [E("d")]]] * ar]])
        progs_.append([["mod", m, [["num", "1"]] * ar]])
        progs_.append([["mod", m, [["rec"]] * ar]])
    inner = [E("+"), ["brk"], ["rec"], ["num", "1"], ["str", "qq"], ["get", "qqa"], ["set", "qqa"]]
    shells = [
        lambda b: ["if", [b]], lambda b: ["if", [b, b]], lambda b: ["if", [b, b, b]], lambda b: ["if", [b, b, b, b, b]],
        lambda b: ["for", None, b], lambda b: ["for", "qqa", b], lambda b: ["while", None, b], lambda b: ["while", b, b],
        lambda b: ["lam", None, b], lambda b: ["lam", 2, b], lambda b: ["map", b], lambda b: ["flt", b], lambda b: ["srt", b],
        lambda b: ["def", "qqf", [], b], lambda b: ["def", "qqf", ["2", "qqa"], b], lambda b: ["list", [b, b]],
        lambda b: ["mod", "v", [b[0]]] if b else ["mod", "v", [E("+")]],
    ]
    for s1 in shells:
        progs_.append([s1(inner)])
        for s2 in shells:
            progs_.append([s2([s1(inner)])])
    texts = [progs.render(p) for p in progs_]
    texts += ["@qqf:*|1;", "@qqf;", "←", "→", "←_qa", "→_qa", "←qqa", "→qqa", "`qq`", "‛qq", "\\q", "«qq«", "»qq»", "⁺q", "#qq\n1",
              "(|1)", "(1|2)", "(_|1)", "@:1|1;", "@;", "@1:1|1;", "λ0|1;", "1", "1234", "1.5", ".", "1°2", "°", "2°", "°2", "1.5°.5", "k", "∆", "q", " ", "\n"]
    return texts


def vocabulary():
    global _VOCAB
    if _VOCAB is None:
        names, edges = set(), set()
        n = 0
        for text in benign_corpus():
            for dc in (True, False, "V"):
                st_, tree, _ = py_of(text, dc)
                if st_ != "ok":
                    continue
                n += 1
                names.update(_identifiers(tree))
                edges.update(_edges(tree))
        names = {x for x in names if not PREFIXED.match(x)}
        _VOCAB = (names, edges, n)
    return _VOCAB


def check_vocab(text, dc):
    """Oracles V and E. -> (status, failure|None)"""
    st_, tree, out = py_of(text, dc)
    if st_ != "ok":
        return st_, None
    names, edges, _ = vocabulary()
    bad = sorted({x for x in _identifiers(tree) if not _ident_ok(x, names)})
    if bad:
        return st_, ("C18:identifier-from-program-text",
                     f"transpile({text!r}, dict_compress={dc}) contains identifier(s) {bad!r} that are neither in the template vocabulary nor prefixed: {out!r}")
    new = sorted(_edges(tree) - edges, key=str)
    if new:
        return st_, (f"C18:new-python-construct:{new[0][0]}.{new[0][1]}.{new[0][2] if len(new[0]) > 2 else ''}",
                     f"transpile({text!r}, dict_compress={dc}) contains Python constructs no template produces: {new[:3]!r}: {out!r}")
    return st_, None


# ---- slots --------------------------------------------------------------------------
def _stays_inside(kind, payload):
    """Does the lexer documentation keep the whole payload inside the literal?"""
    if kind == "str":
        i = 0
        while i < len(payload):
            if payload[i] == "\\":
                if i + 1 >= len(payload):
                    return False  # the backslash would escape the closing delimiter
                i += 2
                continue
            if payload[i] == "`":
                return False
            i += 1
        return True
    if kind == "two":
        return len(payload) == 2
    if kind in ("chr", "cpn"):
        return len(payload) == 1
    if kind == "cnum":
        return "»" not in payload
    if kind == "cstr":
        return "«" not in payload
    return False


SLOTS = [
    # name, prefix, suffix, literal kind (or None), benign payload
    ("str", "`", "`", "str", "qq"), ("two", "‛", "", "two", "qq"), ("chr", "\\", "", "chr", "q"),
    ("cpn", "⁺", "", "cpn", "q"), ("cnum", "»", "»", "cnum", "qq"), ("cstr", "«", "«", "cstr", "qq"),
    ("get", "←", " 1", None, None), ("set", "1→", " 1", None, None), ("loopvar", "3(", "|n)", None, None),
    ("fname-def", "@", ":1|d;", None, None), ("fname-call", "@", ";", None, None),
    ("param1", "@f:", "|1;", None, None), ("param2", "@f:1:", ":b|1;", None, None), ("arity", "λ", "|1;", None, None),
    ("param-star", "@f:*", "|1;0@f;", None, None), ("param-star2", "@f:a:*", ":1|1;", None, None),
]
# the last two put an exploit-shaped literal / comment directly in front of the slot (text must not leak from one token into the next)
WRAPPERS = [("", ""), ("3(", ")"), ("λ", ";1"), ('`");x()#`', ""), ("«;x()#«‛)(", "")]


def check_slot(slot, wrap, payload, dc):
    """-> (status, failure|None)"""
    name, pre, suf, kind, benign = SLOTS[slot]
    w0, w1 = WRAPPERS[wrap]
    text = w0 + pre + payload + suf + w1
    st_, fail = check_vocab(text, dc)
    if fail or st_ != "ok":
        return st_, fail
    if kind is not None and _stays_inside(kind, payload):
        btext = w0 + pre + benign[: len(payload)] .ljust(len(payload), "q") + suf + w1 if kind in ("two", "chr", "cpn") else w0 + pre + benign + suf + w1
        sb, tb, _ = py_of(btext, dc)
        sa, ta, out = py_of(text, dc)
        if sb == "ok" and sa == "ok":
            if abstract_dump(ta) != abstract_dump(tb):
                return st_, (f"C18:payload-changes-code:{name}",
                             f"slot {name}: payload {payload!r} in {text!r} (dict_compress={dc}) yields Python whose shape differs from the benign payload's: {out!r}")
    return st_, None


def _record(rec, st_, fail, case, key, hard, cls):
    if st_ == "raise":
        rec.case(cls=[cls, "transpile-raised(no claim)"])
    elif st_ == "nocompile":
        rec.case(cls=[cls, "does-not-compile(no claim)"])
    else:
        rec.case(key=key, nontrivial=hard, cls=[cls, "compiled"])
    if fail:
        rec.fail(fail[0], case, fail[1])


def _hard(s):
    return bool(re.search(r"[^A-Za-z0-9_]", s))


CLASSIC = ['\\");x()#', '");x()#', '\\\\");x()#', "\\');x()#", "');x()#", '\\");exit()#', '\\"+str(ctx)+"', '"+str(ctx)+"',
           '\\\n");x()#', '{ctx}', '\\{ctx\\}', '%s', '\\N{BULLET}', '\\x41', '\\101', '\\u0041', 'a[b]', '[a]', 'a[0]', 'a[ctx]', 'a^b', 'a`b', 'a\\b', 'a\nb', '"+x+"', '");x(', '\\");x(#', '\\\\");x(#',
           "');x('", '\\', '\\"', 'a"b', "a'b", 'a\\nb', '";import os;"', 'x=1', 'a,b', 'a:b', 'a;b', 'a=b', '_', '__a', '0a', 'a0',
           'a.b', 'ctx.x', 'a b', 'a(b)', 'exit()', '\\\n', '\r', 'a\rb', '\x00', 'é', 'ａ', 'a[b', 'a]b', '`);x(`', '\\`);x(`',
           # the longest names: hundreds of dropped characters, then Python text
           ' ' * 257 + 'if x() else dict', '(' * 300 + 'x', '+' * 1000 + 'x()', ' ' * 400 + 'x']


_DICT_HOT = None


def dict_hot_codes():
    """One-character dictionary codes whose expansion contains a character that matters inside a Python
    literal (computed from the tree under test: it only feeds the generator, not the oracle)."""
    global _DICT_HOT
    if _DICT_HOT is None:
        from vx.harness import vyxal

        hot = set('"\\\n\'')
        try:
            _DICT_HOT = [c for c in vyxal.encoding.compression if hot & set(vyxal.helpers.uncompress_dict(c + "!"))]
        except Exception:  # noqa: BLE001
            _DICT_HOT = []
    return _DICT_HOT


def _payload_iter(maxlen):
    for code in dict_hot_codes():
        for suffix in ("", ");x()#", ");exit()#", '+str(ctx)+"', "!", " ", ");x()#" + code):
            yield code + suffix
    for L in range(0, maxlen + 1):
        for tup in itertools.product(ALPHABET, repeat=L):
            yield "".join(tup)
    for p in CLASSIC:
        if not (len(p) <= maxlen and all(c in ALPHABET for c in p)):
            yield p


def _shard_slots(rec, arg):
    shard, nshards, maxlen = arg
    i = 0
    for _ in (0,):
        for p in _payload_iter(maxlen):
            for s in range(len(SLOTS)):
                for w in range(len(WRAPPERS)):
                    i += 1
                    if i % nshards != shard:
                        continue
                    for dc in (True, False, "V"):
                        st_, fail = check_slot(s, w, p, dc)
                        _record(rec, st_, fail, {"kind": "slot", "slot": s, "wrap": w, "payload": p, "dc": dc},
                                (s, w, p, dc), _hard(p), f"slot-{SLOTS[s][0]}")
    if shard == 0:
        rec.sample({"slot": "param1", "payload": "a[b]", "program": "@f:a[b]|1;"})
        rec.sample({"slot": "str", "payload": '\\");x(', "program": '`\\");x(`'})


def _shard_raw(rec, arg):
    L, shard, nshards = arg
    for idx, tup in enumerate(itertools.product(ALPHABET, repeat=L)):
        if idx % nshards != shard:
            continue
        s = "".join(tup)
        for dc in (True, False, "V"):
            st_, fail = check_vocab(s, dc)
            _record(rec, st_, fail, {"kind": "raw", "text": s, "dc": dc}, (s, dc), _hard(s), f"raw-len{L}")


def _shard_hyp(rec, arg):
    seed, n = arg
    cp = progs.CP
    hot = st.sampled_from(ALPHABET + list("@λ|→←‛«»⁺#k∆"))
    s_cp = st.lists(st.one_of(st.sampled_from(cp), hot), max_size=60).map("".join)
    s_uni = st.text(max_size=60)
    s_mix = st.lists(st.one_of(hot, hot, st.characters()), max_size=40).map("".join)

    def t(s, dc):
        st_, fail = check_vocab(s, dc)
        _record(rec, st_, fail, {"kind": "raw", "text": s, "dc": dc}, (s, dc), _hard(s), "random")
        if len(rec.samples) < 6 and st_ == "ok" and len(s) > 8:
            rec.sample({"raw": s, "dict_compress": dc})

    campaign.hyp_run(t, {"s": st.one_of(s_cp, s_uni, s_mix), "dc": st.sampled_from([True, False, "V"])}, seed, n)

    # structured: payload over the full code page in escaped literal slots of generated programs
    def t2(payload, slot, wrap, dc):
        st_, fail = check_slot(slot, wrap, payload, dc)
        _record(rec, st_, fail, {"kind": "slot", "slot": slot, "wrap": wrap, "payload": payload, "dc": dc},
                (slot, wrap, payload, dc), _hard(payload), f"slot-{SLOTS[slot][0]}-random")

    pieces = st.sampled_from(['\\', '"', "'", ")", ";", "x()", "exit()", "#", "\n", "(", "+", "ctx", "str(ctx)", "{", "}",
                              '");', "');", "=", "[", "]", ",", " ", "\\\\", '\\"', "\\'", "import os", ":", "a", "0"])
    pay = st.one_of(st.lists(st.one_of(hot, hot, st.sampled_from(cp)), max_size=8).map("".join),
                    st.lists(pieces, max_size=7).map("".join))
    campaign.hyp_run(t2, {"payload": pay, "slot": st.integers(0, len(SLOTS) - 1), "wrap": st.integers(0, len(WRAPPERS) - 1),
                          "dc": st.sampled_from([True, False, "V"])}, seed + 1, n)


def run(rec, tier, seed):
    quick = tier == "quick"
    ns = campaign.NCPU
    names, edges, n = vocabulary()
    rec.notes["vocabulary_size"] = len(names)
    rec.notes["edge_set_size"] = len(edges)
    rec.notes["benign_corpus_programs_compiled"] = n
    if n < 500 or len(names) < 100:
        raise campaign.HarnessError(f"benign corpus too small: {n} programs, {len(names)} names")
    maxlen = 2 if quick else 3
    campaign.parallel(rec, _shard_slots, [(s, ns * 2, maxlen) for s in range(ns * 2)])
    rec.exhaustive.append(f"payloads of length<={maxlen} over the 18-character adversarial alphabet in {len(SLOTS)} slots x {len(WRAPPERS)} wrappers x 2 settings")
    rawlen = 3 if quick else 4
    jobs = []
    for L in range(0, rawlen + 1):
        k = 1 if L <= 2 else ns * (1 if L <= 3 else 2)
        jobs += [(L, s, k) for s in range(k)]
    campaign.parallel(rec, _shard_raw, jobs)
    rec.exhaustive.append(f"all raw strings of length<={rawlen} over the adversarial alphabet x 2 settings")
    n = 400 if quick else 20000
    campaign.parallel(rec, _shard_hyp, [(seed * 1000 + i, n) for i in range(ns)])
    if not quick:
        campaign.atheris_tier(rec, "C18", 60000, seed, procs=8, max_len=48)


def replay(case):
    k = case.get("kind")
    if k == "slot":
        s, w = case["slot"], case["wrap"]
        if not (isinstance(s, int) and 0 <= s < len(SLOTS) and isinstance(w, int) and 0 <= w < len(WRAPPERS)):
            return None
        if not isinstance(case["payload"], str):
            return None
        return check_slot(s, w, case["payload"], "V" if case["dc"] == "V" else bool(case["dc"]))[1]
    if k == "raw":
        if not isinstance(case["text"], str):
            return None
        return check_vocab(case["text"], "V" if case["dc"] == "V" else bool(case["dc"]))[1]
    return None


def fuzz_targets():
    vocabulary()
    cp = progs.CP

    def raw(dc):
        def f(data):
            s = "".join(cp[b] for b in data)
            st_, fail = check_vocab(s, dc)
            return [(fail[0], {"kind": "raw", "text": s, "dc": dc}, fail[1])] if fail else []
        return f

    def slot(data):
        if len(data) < 3:
            return []
        s_, w_, dc = data[0] % len(SLOTS), data[1] % len(WRAPPERS), bool(data[2] & 1)
        payload = "".join(cp[b] for b in data[3:])
        st_, fail = check_slot(s_, w_, payload, dc)
        return [(fail[0], {"kind": "slot", "slot": s_, "wrap": w_, "payload": payload, "dc": dc}, fail[1])] if fail else []

    return {"raw-compress": raw(True), "raw-nocompress": raw(False), "slot": slot}
