"""C19 - online mode contains the program: no host output, no evaluation of user text.

Programs (core grammar pieces + every printing element + E / † / Ė applied to
strings + output flags) are run through
    execute_vyxal(text, flags + "e", "\\n".join(inputs), {1: "", 2: ""}, True)
in-process.  Inputs and string literals carry a taint: Python expressions whose
evaluation would call __verif_canary__ (a builtin installed by the harness).
Oracle
  * the host's stdout and stderr stay empty;
  * the canary is never called;
  * no audit `compile` event for executable code (anything but ast.parse's
    AST-only compile) has the canary as a *name* in its source (user text may
    appear in generated code only inside constants);
  * the only exception allowed to escape is SystemExit, and with SystemExit(1)
    the error record [2] is non-empty.
A control run per process confirms that the same taint *does* reach the canary
offline (the oracle is not vacuous).
"""
from __future__ import annotations

import ast
import builtins
import contextlib
import io
import sys

from hypothesis import strategies as st

from vx import campaign, harness, progs
from vx.harness import vyxal

RULE = ("Hypothesis-generated online runs (program pieces x taint-carrying inputs / literals x output flags); "
        "non-trivial = the run printed at least one value or evaluated at least one tainted string; distinct by "
        "(program, flags, inputs)")
ASSUMPTIONS = [
    "checked in-process through main.execute_vyxal(online_mode=True), not through Flask / multiprocessing",
    "ast.parse / ast.literal_eval (AST-only compile, filename '<unknown>') is reading a literal, not compiling user text",
    "only E, † and input parsing are claimed (the sympy-parsing ∆ overloads are outside the property)",
]

CANARY = "__verif_canary__"
MARK = "vx_canary"
OPENC = f"open('/nonexistent/{MARK}')"
MKDIRC = f"__import__('os').mkdir('/nonexistent/{MARK}/d')"
_state = {"calls": [], "events": [], "active": False, "installed": False, "in_hook": False}


def _canary(*a):
    _state["calls"].append(a)
    return 1


def _hook(event, args):
    if not _state["active"] or _state["in_hook"]:
        return
    if event == "compile":
        src, filename = (args + (None, None))[:2]
        if isinstance(src, bytes):
            try:
                src = src.decode("utf-8", "replace")
            except Exception:  # noqa: BLE001
                src = None
        if isinstance(src, str) and CANARY in src and filename != "<unknown>":
            _state["in_hook"] = True
            try:
                try:
                    tree = ast.parse(src)
                    as_name = any(isinstance(n, ast.Name) and n.id == CANARY for n in ast.walk(tree))
                except SyntaxError:
                    as_name = False
            finally:
                _state["in_hook"] = False
            if as_name:
                _state["events"].append(("compile", str(filename), src[:200]))
    elif event in ("os.system", "subprocess.Popen", "os.exec", "os.posix_spawn"):
        _state["events"].append((event, repr(args)[:120]))
    elif event in ("open", "os.mkdir") and args and MARK in str(args[0]):
        # second canary family: a *builtin* with an audited side effect (sympy's expression
        # evaluator only exposes builtin functions, so a Python-level canary is invisible to it)
        _state["calls"].append((event, str(args[0])))


def _install():
    if not _state["installed"]:
        setattr(builtins, CANARY, _canary)
        sys.addaudithook(_hook)
        _state["installed"] = True


TAINTS = [
    f"{CANARY}(7)", f"[{CANARY}(2)]", f"(1, {CANARY}(3))", f"1.5 if {CANARY}(4) else 0", f"1.0*{CANARY}(5)", f"-0.25+{CANARY}(6)",
    f"__import__('os').getcwd() or {CANARY}(1)", f"{{1: {CANARY}(8)}}", f"'a' + str({CANARY}(9))", f"[1, 2][{CANARY}(0) - 1]",
    f"lambda: {CANARY}(1)", f"print({CANARY}(2))", f'\\"+str({CANARY}(3))) #', f"1;{CANARY}(4)", f"f'{{{CANARY}(5)}}'",
]
TAINTS += [OPENC, f"[{OPENC}]", f"1.0*{OPENC}.fileno()", f"-0.25+len({OPENC}.read())", f"2.5 if {OPENC} else 0", MKDIRC, f"1.0*{MKDIRC}",
           f"0.5*{MKDIRC}", f"3*{OPENC}.fileno()", f"1e3+{OPENC}.fileno()", f".5-{OPENC}.fileno()"]
# taints written in Vyxal's own syntax (list literals / programs whose items would print or evaluate tainted text):
# as an input or as the operand of E they are data; only Ė may run them, and then under the same online context
VY_TAINTS = [f"⟨`{CANARY}(7)`E⟩", "⟨`vx-out`,⟩", "⟨1|`vx-out`,|3⟩", f"`{CANARY}(7)`E", f"⟨`{OPENC}`†⟩", "λ`vx-out`,;†", "`vx-out`,", f"⟨⟨`{CANARY}(1)`E⟩⟩",
             "⟨1|2|3⟩", f"⟨`a`|`{CANARY}(2)`E,⟩", "⟨`vx-out`₴|2⟩", f"⟨?E⟩", "⟨`vx-out`…⟩"]
TAINTS += VY_TAINTS
# literal VALUES (sets, lists, tuples, dicts, strings) whose string members are Python code: reading the literal is fine,
# evaluating what is inside the strings is not (e.g. by handing them to a library that parses strings)
LITERAL_TAINTS = ['{"%s(7)"}' % CANARY, '[1, {"%s(2)"}]' % CANARY, '("%s(3)",)' % CANARY, '["%s(4)", 2]' % CANARY, '{"k": "%s(5)"}' % CANARY, '"%s(6)"' % CANARY,
                  "{'%s'}" % OPENC.replace("'", '"'), "[{'%s'}, 3]" % MKDIRC.replace("'", '"'), '{"1.0*%s(8)"}' % CANARY, 'frozenset({"%s(9)"})' % CANARY,
                  '{("%s(1)", 2)}' % CANARY, '[[["%s(2)"]]]' % CANARY]
TAINTS += LITERAL_TAINTS
WEIRD = ["None", "...", "1e999", "-1e999", "[None, 'x']", "True", "False", "b'x'", "{1, 2}", "{'a': 1}", "1j", "-", "(", "''", '"""', "1_000", "0o17",
         "[1,[2,[3]]]", "[[]]", "()", "1,2", "[1.5, None]", "nan", "inf", "1e-999", "[True, [False]]", "(None,)", "\\", "\x00", "[...]", "{}", "set()"]
BENIGN = WEIRD + ["[1,2,3]", "1.5", "'abc'", "(1,2)", "12", "abc", "-3", "[[1,2],[3]]", '"x"', "1e3", "0x10", ""]


def control_offline():
    """The taint must be live offline, otherwise the oracle would be vacuous."""
    _install()
    _state["calls"].clear()
    _state["active"] = True
    try:
        out, exc, _ = harness.run_main("?", "", [f"{CANARY}(7)"], online=False)
    finally:
        _state["active"] = False
    return len(_state["calls"]) > 0


PRIMERS = ["`1 2+`Ė", "`12`E", "`1`†", "3ɾƛd;,", "λ1;†,", "@f:1|d;3@f;,", "⟨3|1|2⟩λN;Þ↓,", "1 2\"vE", "5ɾ'2%;…_", "?E,", "`@g:1|2*;3@g;`Ė,"]
_primed = {"done": False}


def prime_offline():
    """Once per worker process: ordinary offline runs first (a server process may have served other work before);
    nothing the interpreter remembers from them may weaken the online run that follows."""
    if _primed["done"]:
        return
    _primed["done"] = True
    for ptxt in PRIMERS:
        try:
            harness.run_main(ptxt, "", ["7"], online=False, budget=300_000)
        except BaseException:  # noqa: BLE001
            pass


def check(text, flags, inputs):
    """-> ('discard', why) | None | (sig, msg); also returns (printed?, evaluated?) through _last"""
    _install()
    prime_offline()
    harness.reset_globals()
    _state["calls"].clear()
    _state["events"].clear()
    out_host, err_host = io.StringIO(), io.StringIO()
    rec = {1: "", 2: ""}
    exc = None
    _state["active"] = True
    try:
        with harness.watchdog(6), contextlib.redirect_stdout(out_host), contextlib.redirect_stderr(err_host), harness.fuel(300_000):
            vyxal.main.execute_vyxal(text, flags + "e", "\n".join(inputs), rec, True)
    except (harness.FuelExhausted, harness.Inconclusive, RecursionError, MemoryError) as e:
        _state["active"] = False
        return ("discard", type(e).__name__)
    except SystemExit as e:
        exc = e
    except BaseException as e:  # noqa: BLE001
        exc = e
    finally:
        _state["active"] = False
    check.last = {"printed": bool(rec[1]), "errors": bool(rec[2])}
    desc = f"online run of {text!r} flags={flags!r} inputs={inputs!r}"
    if _state["calls"]:
        return ("C19:user-text-executed", f"{desc}: user-supplied text was evaluated as Python (canary called with {_state['calls'][:2]!r})")
    if _state["events"]:
        ev = _state["events"][0]
        return (f"C19:user-text-compiled:{ev[0]}", f"{desc}: user-supplied text reached the Python compiler as code: {ev!r}")
    if out_host.getvalue():
        return ("C19:host-stdout", f"{desc}: wrote {out_host.getvalue()[:80]!r} to the host's stdout (output record: {rec[1][:60]!r})")
    if err_host.getvalue():
        return ("C19:host-stderr", f"{desc}: wrote {err_host.getvalue()[:80]!r} to the host's stderr")
    if exc is not None:
        if isinstance(exc, SystemExit):
            if exc.code not in (0, None) and not rec[2]:
                return ("C19:exit-without-error-record", f"{desc}: exited with {exc.code!r} but the error record is empty")
        else:
            tb = exc.__traceback__
            where = "?"
            while tb is not None:
                fn = tb.tb_frame.f_code.co_filename
                if fn.startswith(harness.VYXAL_DIR):
                    where = tb.tb_frame.f_code.co_name
                tb = tb.tb_next
            return (f"C19:exception-escapes:{type(exc).__name__}:{where}", f"{desc}: {type(exc).__name__}: {exc} propagated out of execute_vyxal "
                    f"instead of being reported in the error record")
    return None


check.last = {}

# ---- generators ----------------------------------------------------------------------
PRINTERS = [",", "…_", "₴", "¨,", "¨…_"]
VALUE_MAKERS = ["1", "12", "3ɾ", "3ɾƛd;", "⟨1|2⟩", "⟨⟨1|2⟩|3⟩", "`ab`", "λ1;", "λ2|+;", "4ʁ", "1 2\"", "3ɾ2ẇ", "?", "¤", "3ɾƛɾ;", "2ɾλd;M", "kH"]
EVALS = ["E", "†", "Ė", "E,", "†,", "EE", "vE", "?E", "?†", "?Ė"]
FLAGS = ["", "O", "o", "j", "s", "W", "H", "M", "m", "S", "L", "d", "Ṡ", "a", "G", "g", "l", "…", "P", "ḋ", "c", "Ṫ", "ṡ", "J"]


def _lit(s):
    return "`" + s.replace("\\", "\\\\").replace("`", "\\`") + "`"


def piece():
    taint = st.sampled_from(TAINTS + BENIGN)
    return st.one_of(
        st.tuples(st.sampled_from(VALUE_MAKERS), st.sampled_from(PRINTERS)).map(lambda t: t[0] + t[1]),
        st.tuples(taint, st.sampled_from(EVALS)).map(lambda t: _lit(t[0]) + t[1]),
        st.tuples(taint, st.sampled_from(EVALS)).map(lambda t: "`" + t[0].replace("`", "") + "`" + t[1]),  # raw (unescaped) literal
        st.sampled_from(["?", "?,", "?E,", "?†", "??+,", "□,", "?Ė", "⁰,", "¹,"]),
        st.sampled_from(VALUE_MAKERS),
        st.sampled_from(["1 0/,", "`a`1+,", "⟨⟩h,", "3ɾ(n,)", "2(n…_)", "1[`t`,|`f`,]", "λ3ɾ,;†", "@f|3ɾ,;@f;", "3ɾvƛ,;_", "5ɾ'2%;,", "x", "X",
                         "`abc`5i,", "1 2 3WṘ,", "3ɾ∑,", "⟨`a`|1⟩,", "`\\``,", "¶,", "kH,"]),
    )


PROGRAM = st.lists(piece(), min_size=1, max_size=5).map("".join)
INPUTS = st.lists(st.sampled_from(TAINTS + BENIGN), max_size=3)
FLAGSET = st.lists(st.sampled_from(FLAGS), max_size=2, unique=True).map("".join)


def _do(rec, text, flags, inputs, cls):
    r = check(text, flags, inputs)
    if r and r[0] == "discard":
        rec.discard(r[1])
        return
    tainted = any(t in text for t in TAINTS) or any(i in TAINTS for i in inputs)
    nt = check.last.get("printed") or tainted
    rec.case(key=(text, flags, tuple(inputs)), nontrivial=bool(nt), cls=[cls] + (["tainted"] if tainted else []) + (["printed"] if check.last.get("printed") else [])
             + (["error-recorded"] if check.last.get("errors") else []))
    if r:
        rec.fail(r[0], {"text": text, "flags": flags, "inputs": list(inputs)}, r[1])


def _shard_fixed(rec, arg):
    shard, nshards = arg
    if shard == 0:
        ok = control_offline()
        rec.notes["control_offline_canary_reachable"] = ok
        if not ok:
            rec.fail("C19:control-vacuous", {"text": "?", "flags": "", "inputs": [TAINTS[0]]}, "offline control: the canary was not reached, the oracle would be vacuous")
    i = 0
    for t in TAINTS + BENIGN:
        progs_ = ["?", "?,", "?E", "?E,", "?†", "?Ė", _lit(t) + "E", _lit(t) + "E,", _lit(t) + "†", _lit(t) + "Ė", _lit(t) + "vE", "□,", "??\"E,",
                  "⟨" + _lit(t) + "|" + _lit(t) + "⟩E,", "⟨?|?⟩E", "λ?E;†", "3(?E,)", "`" + t.replace("`", "") + "`E", "`" + t.replace("`", "") + "`†"]
        for p in progs_:
            for fl in ("", "a", "Ṡ", "j", "W"):
                i += 1
                if i % nshards != shard:
                    continue
                _do(rec, p, fl, [t, t], "fixed-taint-matrix")
    # the longest names: a function name with hundreds of characters that are dropped from the identifier
    for junk in (" " * 257, " " * 400, "(" * 300, "+" * 1000, "\n" * 260):
        for payload in (f"if {CANARY}(1) else dict", f"or {CANARY}(2)", f"{CANARY}", "if print(1) else dict"):
            for form in ("@a{};", "@a{}:1|2;", "@a{}:1|2;3@a{};", "λ@a{};;†"):
                i += 1
                if i % nshards != shard:
                    continue
                _do(rec, form.replace("{}", junk + payload), "", [TAINTS[0]], "long-function-names")
    for vm in VALUE_MAKERS:
        for pr in PRINTERS + [""]:
            for fl in FLAGS:
                i += 1
                if i % nshards != shard:
                    continue
                _do(rec, vm + pr, fl, ["3"], "fixed-print-matrix")
    if shard == 0:
        rec.sample({"program": "?E,", "flags": "", "inputs": [TAINTS[0]], "online": True})


# ---- functions handed to elements: the callee must run under the same (online) context -----------------------
FN_PAYLOADS = [_lit(TAINTS[0]) + "E", "77,1", _lit(OPENC) + "†1", "?E", "n…_1"]
FN_SKIP = {"Q", "¨U"}


def fn_programs(key, arity, quick=False):
    """Programs that hand a lambda to `key` in every argument position, over a few first arguments."""
    out = []
    for pay in (FN_PAYLOADS[:3] if quick else FN_PAYLOADS):
        for ar in (("", "2|") if quick else ("", "1|", "2|")):
            lam = "λ" + ar + pay + ";"
            if arity == 1:
                forms = [lam + key]
            elif arity == 2:
                forms = ["⟨3|1|2⟩" + lam + key, lam + "⟨3|1|2⟩" + key, "4 " + lam + key, lam + "2 " + key, "`ab`" + lam + key]
            elif arity == 3:
                forms = ["⟨3|1|2⟩ 2 " + lam + key, "⟨3|1|2⟩" + lam + "2 " + key, lam + "⟨3|1|2⟩ 2 " + key, "1 5 " + lam + key, "⟨3|1|2⟩" + lam + lam + key]
            else:
                forms = []
            out += [f + "," for f in forms]
    return out


def _shard_fn(rec, arg):
    shard, nshards, quick = arg
    els = vyxal.elements.elements
    i = 0
    for key, (_, arity) in els.items():
        if key in FN_SKIP:
            continue
        for text in fn_programs(key, arity, quick):
            i += 1
            if i % nshards != shard:
                continue
            _do(rec, text, "", [TAINTS[0], TAINTS[0]], "function-argument-matrix")
    for mod in progs.MOD_ARITY:
        for pay in (FN_PAYLOADS[:3] if quick else FN_PAYLOADS):
            for ar in (("", "2|") if quick else ("", "1|", "2|")):
                lam = "λ" + ar + pay + ";"
                ops = lam * progs.MOD_ARITY[mod]
                for pre in ("⟨3|1|2⟩", "4 ", "⟨3|1|2⟩ 2 ", ""):
                    for post in (",", "†,", "M,"):
                        i += 1
                        if i % nshards != shard:
                            continue
                        _do(rec, pre + mod + ops + post, "", [TAINTS[0], TAINTS[0]], "function-argument-matrix")
    if shard == 0:
        rec.sample({"program": fn_programs("Þ↓", 2)[0], "inputs": [TAINTS[0]], "online": True})


def _shard_hyp(rec, arg):
    seed, n = arg

    def t(text, flags, inputs):
        _do(rec, text, flags, inputs, "generated")
        if len(rec.samples) < 6 and len(text) > 10:
            rec.sample({"program": text, "flags": flags, "inputs": inputs})

    campaign.hyp_run(t, {"text": PROGRAM, "flags": FLAGSET, "inputs": INPUTS}, seed, n)

    def t2(p, ins, flags):
        text = progs.render(p)
        _do(rec, text, flags, ins, "generated-core-grammar")

    campaign.hyp_run(t2, {"p": progs.core_strategy(2, breaks=True, printing=True, functions=True), "ins": INPUTS, "flags": FLAGSET}, seed + 1, n // 2)


def run(rec, tier, seed):
    quick = tier == "quick"
    ns = campaign.NCPU
    campaign.parallel(rec, _shard_fixed, [(s, ns) for s in range(ns)])
    rec.exhaustive.append("taint matrix (every taint x evaluation program x input flag) and print matrix (value maker x printer x output flag)")
    campaign.parallel(rec, _shard_fn, [(s, ns * 2, quick) for s in range(ns * 2)])
    rec.exhaustive.append("function-argument matrix: every element key and modifier x lambda payloads (print / E / † on tainted text) in every argument position")
    n = 150 if quick else 3000
    campaign.parallel(rec, _shard_hyp, [(seed * 1000 + i, n) for i in range(ns)])


def replay(case):
    if not isinstance(case.get("text"), str) or not isinstance(case.get("flags"), str) or not isinstance(case.get("inputs"), list):
        return None
    if any(not isinstance(i, str) for i in case["inputs"]) or any(f in "hvf" for f in case["flags"]):
        return None
    r = check(case["text"], case["flags"], case["inputs"])
    if r and r[0] == "discard":
        return None
    return r
