"""C20 - every element is typeable in one byte per character and reachable.

Finite domain, enumerated completely on every run (both tiers):
  * the 256 code-page positions, all byte strings of length <= 2 (round trip
    bytes -> text -> bytes) and all code-page texts of length <= 2 (text ->
    bytes -> text);
  * every key of elements / modifiers / STRUCTURE_INFORMATION, the closers, the
    three modifier lists, branch / break / recurse characters;
  * the dict literals in vyxal/elements.py re-read with `ast` (duplicate keys);
  * every entry of documents/knowledge/elements.yaml.
Oracle: see the individual `_check_*` functions; each is re-runnable on one
saved case (replay).
"""
from __future__ import annotations

import ast
import itertools
import os

from vx import harness, yamlmini
from vx.harness import vyxal

RULE = ("exhaustive enumeration of a finite domain: 256 code-page positions, all byte strings "
        "and code-page texts of length<=2, every table key and every yaml entry; every case is "
        "distinct by construction; non-trivial = table keys, yaml entries and multi-byte strings")
WHOLE_DOMAIN_FINITE = True
ASSUMPTIONS = [
    "elements.yaml is read with a hand-written reader for the YAML subset the file uses (PyYAML is not installed)",
    "'reachable' is decided through the public pipeline tokenise -> parse -> transpile, not by running the element",
]

T = vyxal.lexer.TokenType
P = vyxal.parse


def _syntax_chars():
    s = set(P.OPENING_CHARACTERS) | set(P.CLOSING_CHARACTERS) | {"|", " ", P.BREAK_CHARACTER, P.RECURSE_CHARACTER}
    return s


def _all_modifiers():
    return list(P.MONADIC_MODIFIERS) + list(P.DYADIC_MODIFIERS) + list(P.TRIADIC_MODIFIERS)


LAMBDA_MODIFIERS = {"⁽", "‡", "≬"}  # lowered to lambdas by the parser, no template needed


def _check_key(kind: str, key: str):
    """-> (sigsuffix, msg) or None."""
    cp = vyxal.encoding.codepage
    bad = [c for c in key if c not in cp]
    if bad:
        return ("not-in-codepage", f"{kind} key {key!r} uses characters outside the code page: {bad!r}")
    toks = vyxal.lexer.tokenise(key)
    if len(toks) != 1 or toks[0].name != T.GENERAL or toks[0].value != key:
        return ("not-one-token", f"{kind} key {key!r} lexes as {toks!r}")
    if kind == "element":
        if key in _syntax_chars():
            return ("shadowed-by-syntax", f"element key {key!r} is structure/branch/break/recurse syntax; its table entry is unreachable")
        if key in _all_modifiers():
            return ("shadowed-by-modifier", f"element key {key!r} is also a modifier")
        st = P.parse(toks)
        if not (len(st) == 1 and type(st[0]) is vyxal.structure.GenericStatement
                and st[0].branches[0][0] == toks[0]):
            return ("not-generic", f"element key {key!r} parses as {st!r}")
        out = vyxal.transpile.transpile(key)
        tpl = vyxal.elements.elements[key][0]
        if out.strip("\n") != harness.vyxal.helpers.indent_str(tpl, 0).strip("\n"):
            return ("template-not-emitted", f"transpile({key!r}) does not emit the element's template")
    if kind == "modifier-table":
        if key not in _all_modifiers():
            return ("modifier-unreachable", f"modifier table key {key!r} is in none of the parser's modifier lists")
    if kind == "modifier-list":
        if key not in vyxal.elements.modifiers and key not in LAMBDA_MODIFIERS:
            return ("modifier-no-template", f"parser modifier {key!r} has no template in the modifier table")
        if key in _syntax_chars():
            return ("shadowed-by-syntax", f"modifier {key!r} is structure syntax")
    if kind == "structure":
        if key in _all_modifiers():
            return ("shadowed-by-modifier", f"structure character {key!r} is also a modifier")
    return None


PREFIXES = ["7", "12", "1.5", "3°4", "0", "°", ".", "`ab`", "«ab«", "»ab»", "→", "←ab", "+", "kA", "\\a", "‛ab",
            "⁺a", "#c\n", " ", "[", "]", "|", ";", "X", "v", "λ"]
SUFFIXES = ["", "7", "a", "+", "|", "`q`", "kA", ".5"]


def _check_positional(key: str):
    """A key must be one GENERAL token wherever it stands: tokenise(p + key + s)
    == tokenise(p) + [GENERAL key] + tokenise(s) for every neighbouring token."""
    mid = [vyxal.lexer.Token(T.GENERAL, key)]
    for vmode in (False, True):   # default lexing, and one-letter variable names (the V flag)
        tok = (lambda s_: vyxal.lexer.tokenise(s_, True)) if vmode else vyxal.lexer.tokenise
        note = " [variables_as_digraphs=True]" if vmode else ""
        for pre in PREFIXES:
            if pre in ("→", "←ab") and (key[0].isalpha() or key[0] == "_") and key[0].isascii():
                continue  # documented: names absorb following ASCII letters / underscore
            for suf in SUFFIXES:
                try:
                    got = tok(pre + key + suf)
                    want = tok(pre) + mid + tok(suf)
                except Exception as e:  # noqa: BLE001
                    return ("positional-raises", f"tokenise({pre + key + suf!r}) raised {e!r}" + note)
                if got != want:
                    return ("positional", f"key {key!r} between {pre!r} and {suf!r}: tokenise({pre + key + suf!r}) = {got!r}, expected {want!r}" + note)
    return None


SKIP_NILADS = {"?", "□", "¤", "Þ∞", "k□", "kḂ", "n", "x", "X"}


def _check_nilad_under_modifier(k):
    """-> 'skip' | None | message"""
    if k in SKIP_NILADS or k.startswith("kε"):
        return "skip"
    try:
        alone = harness.run_program(k, budget=200_000, wall=3)
        under = harness.run_program("7 8 ₌" + k + k, budget=300_000, wall=3)
        ctxrun = harness.run_program("7 8 " + k, budget=200_000, wall=3)
    except Exception:  # noqa: BLE001
        return "skip"
    if alone.exc is not None or under.exc is not None or ctxrun.exc is not None or len(alone.stack) != 1:
        return "skip"
    try:
        v = harness.norm(alone.stack[0], cap=50)
        if [harness.norm(x, cap=50) for x in ctxrun.stack] != [harness.norm(7), harness.norm(8), v]:
            return "skip"  # the element looks at the stack / context (stack length, wrap, ...): not a plain constant
        got = [harness.norm(x, cap=50) for x in under.stack]
    except Exception:  # noqa: BLE001
        return "skip"
    if got != [harness.norm(7), harness.norm(8), v, v]:
        return f"element {k!r} has arity 0 in the table, but `7 8 ₌{k}{k}` leaves {harness.jsonable(got)!r:.200} instead of 7, 8 and its value twice"
    return None


def _template_shadowing():
    """All generated code of a program shares one namespace: `head = ...` in one template would shadow the function
    `head` that another template calls.  -> ({key: message}, number of templates read)"""
    binds, uses = {}, {}
    for k, (code, ar) in vyxal.elements.elements.items():
        try:
            tree = ast.parse(code)
        except SyntaxError:
            continue
        stored = {n.id for n in ast.walk(tree) if isinstance(n, ast.Name) and isinstance(n.ctx, (ast.Store, ast.Del))}
        loaded = {n.id for n in ast.walk(tree) if isinstance(n, ast.Name) and isinstance(n.ctx, ast.Load)}
        binds[k] = stored
        uses[k] = loaded - stored
    module_names = {n for n in dir(vyxal.elements) if callable(getattr(vyxal.elements, n, None))}
    out = {}
    for a, st_a in binds.items():
        for name in sorted((st_a & module_names) - {"stack", "ctx"}):
            users = [b for b, u in uses.items() if name in u and b != a]
            if users:
                out[a] = (f"the template of {a!r} assigns the Python name {name!r}, through which the template(s) of {users[:5]!r} reach "
                          f"their implementation; after {a!r} has run they are shadowed")
                break
    return out, len(binds)


def _dup_keys():
    """Duplicate constant keys in the dict literals of vyxal/elements.py."""
    path = os.path.join(harness.VYXAL_DIR, "elements.py")
    with open(path, encoding="utf-8") as f:
        tree = ast.parse(f.read())
    out = []
    n = 0
    for node in ast.walk(tree):
        if isinstance(node, (ast.Assign, ast.AnnAssign)):
            tgt = node.targets[0] if isinstance(node, ast.Assign) else node.target
            if isinstance(tgt, ast.Name) and tgt.id in ("elements", "modifiers") and isinstance(node.value, ast.Dict):
                seen = {}
                for k in node.value.keys:
                    if isinstance(k, ast.Constant):
                        n += 1
                        if k.value in seen:
                            out.append((tgt.id, k.value, seen[k.value], k.lineno))
                        else:
                            seen[k.value] = k.lineno
    return out, n


def _check_yaml_entry(e, counts):
    key = e["key"]
    if e["kind"] == "modifier":
        if key not in _all_modifiers():
            return ("doc-modifier-unknown", f"documented modifier {key!r} (yaml line {e['line']}) is not a parser modifier")
        return None
    table = vyxal.elements.elements
    if key in table:
        ar = e.get("arity")
        if counts.get(key, 0) > 1:
            return None  # documented twice: the duplicate table key is reported once, under dup-key
        if isinstance(ar, int) and ar != table[key][1]:
            return ("arity", f"element {key!r}: documented arity {ar}, table arity {table[key][1]} (yaml line {e['line']})")
        return None
    if key in _syntax_chars() or key in _all_modifiers() or key in ("→", "←", "`", "«", "»", "‛", "\\", "#", "⁺", "°")\
            or key in "0123456789." or key in "k∆øÞ¨":
        return None  # syntax, documented for completeness
    return ("info", "documented-but-not-in-table")  # informational: C20 constrains table entries, not the docs' extras


def run(rec, tier, seed):
    cp = vyxal.encoding.codepage
    # 1. code page
    rec.case(cls="codepage-size")
    if len(cp) != 256 or len(set(cp)) != 256:
        dups = sorted({c for c in cp if cp.count(c) > 1})
        rec.fail("C20:codepage-not-bijective", {"kind": "codepage"}, f"len={len(cp)} distinct={len(set(cp))} dups={dups!r}")
    # 2. byte strings <= 2, texts <= 2
    v2u, u2v = vyxal.encoding.vyxal_to_utf8, vyxal.encoding.utf8_to_vyxal
    for n in (0, 1, 2):
        for bs in itertools.product(range(256), repeat=n):
            ok = True
            try:
                text = v2u(list(bs))
                back = [ord(c) for c in u2v(text)]
                ok = back == list(bs) and len(text) == n
            except Exception as ex:  # noqa: BLE001
                ok = False
                back = repr(ex)
            rec.case(nontrivial=n == 2, cls=f"bytes-len{n}")
            if not ok:
                rec.fail(f"C20:bytes-roundtrip:{bs[0] if bs else ''}", {"kind": "bytes", "bytes": list(bs)},
                         f"bytes {list(bs)} -> text -> {back}")
    chars = sorted(set(cp))
    for n in (1, 2):
        for tup in itertools.product(chars, repeat=n):
            s = "".join(tup)
            try:
                ok = v2u([ord(c) for c in u2v(s)]) == s
            except Exception:  # noqa: BLE001
                ok = False
            rec.case(nontrivial=n == 2, cls=f"text-len{n}")
            if not ok:
                rec.fail(f"C20:text-roundtrip:{s[0]!r}", {"kind": "text", "text": s}, f"text {s!r} does not survive text->bytes->text")
    rec.exhaustive.append("bytes and code-page texts of length<=2")
    rec.sample({"bytes": [0, 255], "text": v2u([0, 255])})

    # 3. tables
    def keycase(kind, key):
        r = _check_key(kind, key)
        rec.case(nontrivial=True, cls=f"key-{kind}")
        if r:
            rec.fail(f"C20:{r[0]}:{key}", {"kind": "key", "table": kind, "key": key}, r[1])

    for k in vyxal.elements.elements:
        keycase("element", k)
    for k in vyxal.elements.modifiers:
        keycase("modifier-table", k)
    for k in _all_modifiers():
        keycase("modifier-list", k)
    for k in list(P.STRUCTURE_INFORMATION) + list(P.CLOSING_CHARACTERS) + ["|", P.BREAK_CHARACTER, P.RECURSE_CHARACTER]:
        keycase("structure", k)
    allkeys = (list(vyxal.elements.elements) + list(vyxal.elements.modifiers) + _all_modifiers()
               + list(P.STRUCTURE_INFORMATION) + list(P.CLOSING_CHARACTERS) + ["|", P.BREAK_CHARACTER, P.RECURSE_CHARACTER])
    for k in dict.fromkeys(allkeys):
        r = _check_positional(k)
        rec.case(nontrivial=True, cls="key-positional", n=2 * len(PREFIXES) * len(SUFFIXES))
        if r:
            rec.fail(f"C20:{r[0]}:{k}", {"kind": "positional", "key": k}, r[1])
    rec.sample({"positional": {"prefixes": PREFIXES[:6], "suffixes": SUFFIXES}})
    rec.sample({"element-keys": list(vyxal.elements.elements)[:8] + list(vyxal.elements.elements)[-4:]})
    mods = _all_modifiers()
    if len(mods) != len(set(mods)):
        rec.fail("C20:modifier-in-two-lists", {"kind": "modlists"}, f"modifier lists overlap: {mods!r}")
    dups, nkeys = _dup_keys()
    rec.case(nontrivial=True, cls="dict-literal-keys", n=nkeys)
    for table, key, l1, l2 in dups:
        rec.fail(f"C20:dup-key:{key}", {"kind": "dup", "table": table, "key": key},
                 f"key {key!r} occurs twice in the `{table}` dict literal (lines {l1} and {l2}); the first definition is unreachable")
    if nkeys < 300:
        rec.fail("C20:ast-reader-broken", {"kind": "dup-reader"}, f"only {nkeys} literal keys found in elements.py")

    # 3a'. the arity the rest of the pipeline SEES is the table's: a niladic element under the parallel-apply modifier
    #      must consume nothing (7 8 ₌KK leaves 7 8 k k).  Elements that read input / print / look at the stack are skipped.
    for k, (code, ar) in vyxal.elements.elements.items():
        if ar != 0:
            continue
        r = _check_nilad_under_modifier(k)
        if r == "skip":
            continue
        rec.case(nontrivial=True, cls="nilad-under-modifier")
        if r:
            rec.fail(f"C20:arity-seen-by-modifiers:{k}", {"kind": "nilad-mod", "key": k}, r)

    # 3a''. no table entry binds a Python name that another entry reaches its implementation through
    shadows, nbind = _template_shadowing()
    rec.case(nontrivial=True, cls="template-name-shadowing", n=nbind)
    for a, msg in shadows.items():
        rec.fail(f"C20:template-shadows-name:{a}", {"kind": "shadow", "key": a}, msg)

    # 3b. the tables are the same after the pipeline has been used (they are global, mutable dicts)
    snap_e, snap_m, snap_cp = dict(vyxal.elements.elements), dict(vyxal.elements.modifiers), vyxal.encoding.codepage
    odd = ["\n", "k", "∆", "ø", "Þ", "¨", "kq", "∆q", "é", "\\a", "→x", "←", "1", "`a`", "«a«", "⁺a", "X", "x", " ", "#c\n+"]
    corpus = []
    for m, ar in (("v", 1), ("&", 1), ("~", 1), ("ß", 1), ("ƒ", 1), ("ɖ", 1), ("⁽", 1), ("₌", 2), ("₍", 2), ("‡", 2), ("≬", 3)):
        for tok in odd:
            corpus.append(m + tok * ar)
            corpus.append("1[" + m + tok + "+" * (ar - 1) + "|2]")
    corpus += list(vyxal.elements.elements)[:60]
    for prog in corpus:
        rec.case(nontrivial=True, cls="table-stability-corpus")
        try:
            vyxal.transpile.transpile(prog)
        except Exception:  # noqa: BLE001  (ill-formed corpus items may be rejected; only the tables matter here)
            pass
    changed = None
    if dict(vyxal.elements.elements) != snap_e:
        extra = [k for k in vyxal.elements.elements if k not in snap_e]
        changed = f"the element table changed while transpiling: new keys {extra!r}" if extra else "an element table entry was replaced while transpiling"
    elif dict(vyxal.elements.modifiers) != snap_m:
        changed = "the modifier table changed while transpiling"
    elif vyxal.encoding.codepage != snap_cp:
        changed = "the code page changed while transpiling"
    if changed:
        rec.fail("C20:table-mutated-by-use", {"kind": "stability"}, changed + f" (corpus of {len(corpus)} programs: every modifier in front of non-element tokens)")

    # 4. documentation
    entries = yamlmini.load(repo=harness.REPO)
    counts = {}
    for e in entries:
        if e["kind"] == "element":
            counts[e["key"]] = counts.get(e["key"], 0) + 1
    if len(entries) < 300:
        rec.fail("C20:yaml-reader-broken", {"kind": "yaml-reader"}, f"only {len(entries)} yaml entries read")
    seen = set()
    for e in entries:
        r = _check_yaml_entry(e, counts)
        rec.case(nontrivial=True, cls=f"yaml-{e['kind']}")
        if r and r[0] == "info":
            rec.classes["yaml-entry-without-table-entry"] += 1
            continue
        if r and (r[0], e["key"]) not in seen:
            seen.add((r[0], e["key"]))
            rec.fail(f"C20:{r[0]}:{e['key']}", {"kind": "yaml", "key": e["key"], "entry_kind": e["kind"]}, r[1])
    documented = {e["key"] for e in entries}
    for k in vyxal.elements.elements:
        rec.case(nontrivial=True, cls="table-key-documented?")
        if k not in documented:
            rec.classes["undocumented-table-key"] += 1  # informational; the property does not require it
    rec.sample({"yaml-entry": {k: entries[40].get(k) for k in ("key", "arity", "vectorise", "line")}})
    rec.exhaustive.append("all table keys, dict literal keys and yaml entries")
    rec.notes["n_elements"] = len(vyxal.elements.elements)
    rec.notes["n_yaml_entries"] = len(entries)


def replay(case):
    kind = case.get("kind")
    if kind == "codepage":
        cp = vyxal.encoding.codepage
        if len(cp) != 256 or len(set(cp)) != 256:
            return ("C20:codepage-not-bijective", "code page is not a bijection")
        return None
    if kind == "bytes":
        bs = case["bytes"]
        try:
            text = vyxal.encoding.vyxal_to_utf8(list(bs))
            back = [ord(c) for c in vyxal.encoding.utf8_to_vyxal(text)]
            ok = back == list(bs) and len(text) == len(bs)
        except Exception as ex:  # noqa: BLE001
            ok, back = False, repr(ex)
        return None if ok else (f"C20:bytes-roundtrip:{bs[0] if bs else ''}", f"bytes {bs} -> {back}")
    if kind == "text":
        s = case["text"]
        try:
            ok = vyxal.encoding.vyxal_to_utf8([ord(c) for c in vyxal.encoding.utf8_to_vyxal(s)]) == s
        except Exception:  # noqa: BLE001
            ok = False
        return None if ok else (f"C20:text-roundtrip:{s[0]!r}", f"text {s!r} does not round-trip")
    if kind == "key":
        r = _check_key(case["table"], case["key"])
        return (f"C20:{r[0]}:{case['key']}", r[1]) if r else None
    if kind == "stability":
        rec = __import__("vx.campaign", fromlist=["Rec"]).Rec()
        run(rec, "quick", 1)
        f = rec.failures.get("C20:table-mutated-by-use")
        return ("C20:table-mutated-by-use", f["msg"]) if f else None
    if kind == "nilad-mod":
        k = case.get("key")
        if k not in vyxal.elements.elements or vyxal.elements.elements[k][1] != 0:
            return None
        r = _check_nilad_under_modifier(k)
        return (f"C20:arity-seen-by-modifiers:{k}", r) if r and r != "skip" else None
    if kind == "shadow":
        sh = _template_shadowing()[0]
        return (f"C20:template-shadows-name:{case.get('key')}", sh[case.get("key")]) if case.get("key") in sh else None
    if kind == "positional":
        if not case["key"]:
            return None
        r = _check_positional(case["key"])
        return (f"C20:{r[0]}:{case['key']}", r[1]) if r else None
    if kind == "dup":
        for table, key, l1, l2 in _dup_keys()[0]:
            if key == case["key"]:
                return (f"C20:dup-key:{key}", f"key {key!r} occurs twice in `{table}` (lines {l1}, {l2})")
        return None
    if kind == "yaml":
        entries = yamlmini.load(repo=harness.REPO)
        counts = {}
        for e in entries:
            if e["kind"] == "element":
                counts[e["key"]] = counts.get(e["key"], 0) + 1
        for e in entries:
            if e["key"] == case["key"] and e["kind"] == case.get("entry_kind", e["kind"]):
                r = _check_yaml_entry(e, counts)
                if r and r[0] != "info":
                    return (f"C20:{r[0]}:{e['key']}", r[1])
        return None
    return None
