"""Reference interpreter for the core structure grammar (C01).

A tree-walking interpreter over *my* AST (vx/progs.py).  It is written from
documents/specs/{Structures,Transpilation,Input}.md, the flag help text in
vyxal/main.py and the overload tables in elements.yaml; it generates no Python
and shares no code with vyxal/transpile.py.  Values are Python ints, Python
lists and Fn objects (lambdas).  Everything is eager.

  Unmodelled   raised for corners this reference deliberately does not specify
               (negative-number digits, printing a function, ...): discard
  RefError     the documented semantics is an error here: discard
  StepLimit    the reference's own step budget ran out: discard (undecided)
"""
from __future__ import annotations


class Unmodelled(Exception):
    pass


class RefError(Exception):
    pass


class StepLimit(Exception):
    pass


class Fn:
    """A lambda value: body (seq of AST nodes) + arity.

    Purity levels passed down while running: False = top level (everything allowed),
    "fn" = inside an eagerly run function scope (list item, named function: side effects allowed,
    variable writes are not modelled), True = inside a lambda, whose evaluation the
    implementation may defer (no side effects, no variables, no named calls)."""

    def __init__(self, arity, body):
        self.arity = arity
        self.body = body


ELEMENT_ARITY = {
    "+": 2, "-": 2, "*": 2, "N": 1, "›": 1, "‹": 1, "d": 1, "=": 2, "<": 2, ">": 2, ":": 1, "$": 2, "_": 1, "D": 1, "∇": 3, "W": 0,
    "!": 0, "^": 0, "w": 1, '"': 2, "J": 2, "L": 1, "h": 1, "t": 1, "∑": 1, "f": 1, "Ṙ": 1, "n": 0, "?": 0, "ɾ": 1, "¬": 1, "ḃ": 1,
    "∷": 1, "Ḣ": 1, "Ṫ": 1, "U": 1, "s": 1, "G": 1, "g": 1, "p": 2, "ė": 1, ",": 1, "…": 1, "₴": 1, "†": 1, "M": 2, "F": 2, "ṡ": 2,
}
SIDE_EFFECT_ELEMENTS = {",", "…", "₴", "?"}


def is_int(v):
    return isinstance(v, int) and not isinstance(v, bool)


def is_list(v):
    return isinstance(v, list)


def digits(n):
    if not is_int(n):
        raise Unmodelled("digits of a non-integer")
    if n < 0:
        raise Unmodelled("digits of a negative number")
    return [int(c) for c in str(n)]


def truthy(v):
    """Truthiness used by if / while / ß (boolify): numbers non-zero, lists non-empty."""
    if is_int(v):
        return v != 0
    if is_list(v):
        return len(v) > 0
    raise Unmodelled("truthiness of a function")


def fmt(v, top=True):
    if is_int(v):
        return str(v)
    if is_list(v):
        return "⟨ " + " | ".join(fmt(x, False) for x in v) + " ⟩"
    raise Unmodelled("printing a function")


class Interp:
    def __init__(self, inputs=(), flags="", max_steps=20000, effects_in_lambdas=False):
        # effects_in_lambdas: only for programs in which the moment a lambda body runs cannot be
        # observed (see C01's deferred-printing tier)
        self.lambda_purity = "fn" if effects_in_lambdas else True
        self.flags = flags
        self.range_start = 0 if "M" in flags else 1
        self.range_end = 0 if "m" in flags else 1
        self.inputs = [[list(inputs), 0]]
        self.context = [0]
        self.out = []
        self.printed = False
        self.vars = {}
        self.locals = []      # named parameters of the named functions being executed (innermost last)
        self.ghost = 0
        self.funcs = {}
        self.steps = 0
        self.max_steps = max_steps
        self.exec_depth = 0
        self.max_loop_body_runs = 0

    # -- plumbing -------------------------------------------------------------------
    def tick(self, n=1):
        self.steps += n
        if self.steps > self.max_steps:
            raise StepLimit()

    def rng(self, n):
        if not is_int(n):
            raise Unmodelled("range of non-int")
        if n > 3000:
            raise StepLimit()
        self.tick(max(n, 0))
        return list(range(self.range_start, n + self.range_end))

    def get_input(self, explicit=False):
        scope = self.inputs[0] if explicit else self.inputs[-1]
        if scope[0]:
            v = scope[0][scope[1] % len(scope[0])]
            scope[1] += 1
            return v
        if explicit or len(self.inputs) == 1:
            return 0  # no program inputs: every read yields 0
        return 0      # an argument-less call scope yields 0

    def pop(self, stack):
        if stack:
            return stack.pop()
        return self.get_input()

    def popn(self, stack, n):
        return [self.pop(stack) for _ in range(n)]

    def emit(self, v, end="\n"):
        self.printed = True
        self.out.append(fmt(v) + end)

    # -- calling lambdas -------------------------------------------------------------
    def call(self, fn, args):
        """safe_apply(fn, *args): arguments in natural order; result = top of the lambda's stack."""
        return self.run_lambda(fn, list(args))

    def run_lambda(self, fn, lam_stack):
        self.tick(3)
        self.exec_depth += 1
        if self.exec_depth > 40:
            raise StepLimit()
        self.context.append(list(lam_stack) if len(lam_stack) != 1 else lam_stack[0])
        self.inputs.append([list(lam_stack)[::-1], 0])
        try:
            self.run_seq(fn.body, lam_stack, pure=self.lambda_purity)
            return self.pop(lam_stack)
        finally:
            self.context.pop()
            self.inputs.pop()
            self.exec_depth -= 1

    def call_dagger(self, fn, stack):
        """† : the lambda takes its arguments from the caller's stack, in pop order."""
        args = self.popn(stack, fn.arity)
        return self.run_lambda(fn, args)

    # -- vectorisation ----------------------------------------------------------------
    def vec1(self, f, a):
        self.tick()
        if isinstance(a, Fn):
            raise Unmodelled("function used as a number")
        if is_list(a):
            return [self.vec1(f, x) for x in a]
        return f(a)

    def vec2(self, f, a, b):
        self.tick()
        if isinstance(a, Fn) or isinstance(b, Fn):
            raise Unmodelled("function used as a number")
        if is_list(a) and is_list(b):
            n = max(len(a), len(b))
            aa = a + [0] * (n - len(a))
            bb = b + [0] * (n - len(b))
            return [self.vec2(f, x, y) for x, y in zip(aa, bb)]
        if is_list(a):
            return [self.vec2(f, x, b) for x in a]
        if is_list(b):
            return [self.vec2(f, a, y) for y in b]
        return f(a, b)

    @staticmethod
    def need_int(*vs):
        for v in vs:
            if not is_int(v):
                raise Unmodelled("function used as a number")
            if abs(v) > 10 ** 12:
                raise StepLimit()

    def arith(self, op, a, b):
        def f(x, y):
            self.need_int(x, y)
            if op == "+":
                return x + y
            if op == "-":
                return x - y
            if op == "*":
                return x * y
            if op == "=":
                return int(x == y)
            if op == "<":
                return int(x < y)
            return int(x > y)

        if isinstance(a, Fn) or isinstance(b, Fn):
            raise Unmodelled("arithmetic on a function")
        return self.vec2(f, a, b)

    def flatten(self, v):
        self.tick(len(v))
        out = []
        for x in v:
            if is_list(x):
                out += self.flatten(x)
            else:
                out.append(x)
        return out

    def iterable(self, v):
        if is_int(v):
            return digits(v)
        if is_list(v):
            return v
        raise Unmodelled("iterating a function")

    # -- elements ----------------------------------------------------------------------
    def element(self, k, stack, pure):
        self.tick()
        if pure is True and k in SIDE_EFFECT_ELEMENTS:
            raise Unmodelled("side effect inside a lazily evaluated body")
        if k in "+-*=<>" and len(k) == 1:
            b, a = self.popn(stack, 2)
            stack.append(self.arith(k, a, b))
        elif k == "N":
            stack.append(self.vec1(lambda x: -self._int(x), self.pop(stack)))
        elif k == "›":
            stack.append(self.vec1(lambda x: self._int(x) + 1, self.pop(stack)))
        elif k == "‹":
            stack.append(self.vec1(lambda x: self._int(x) - 1, self.pop(stack)))
        elif k == "d":
            stack.append(self.vec1(lambda x: self._int(x) * 2, self.pop(stack)))
        elif k == ":":
            v = self.pop(stack)
            stack += [self.copy(v), v]
        elif k == "$":
            b, a = self.popn(stack, 2)
            stack += [b, a]
        elif k == "_":
            self.pop(stack)
        elif k == "D":
            v = self.pop(stack)
            stack += [v, self.copy(v), self.copy(v)]
        elif k == "∇":
            c, b, a = self.popn(stack, 3)   # c = old top
            stack += [c, a, b]
        elif k == "W":
            whole = [self.copy(x) for x in stack]
            del stack[:]
            stack.append(whole)
        elif k == "!":
            stack.append(len(stack))
        elif k == "^":
            stack.reverse()
        elif k == "w":
            stack.append([self.pop(stack)])
        elif k == '"':
            b, a = self.popn(stack, 2)
            stack.append([a, b])
        elif k == "J":
            b, a = self.popn(stack, 2)
            stack.append(self.merge(a, b))
        elif k == "p":
            b, a = self.popn(stack, 2)
            stack.append(self.merge(b, a))
        elif k == "L":
            stack.append(len(self.iterable(self.pop(stack))))
        elif k == "h":
            it = self.iterable(self.pop(stack))
            stack.append(it[0] if it else 0)
        elif k == "t":
            it = self.iterable(self.pop(stack))
            stack.append(it[-1] if it else 0)
        elif k == "∑":
            it = self.iterable(self.pop(stack))
            if not it:
                stack.append(0)
            else:
                acc = it[0]
                for x in it[1:]:
                    acc = self.arith("+", acc, x)
                stack.append(acc)
        elif k == "f":
            stack.append(self.flatten(self.iterable(self.pop(stack))))
        elif k == "Ṙ":
            v = self.pop(stack)
            if is_list(v):
                stack.append(v[::-1])
            elif is_int(v):
                if v == 0:
                    stack.append(0)
                else:
                    s = str(abs(v)).strip("0")[::-1]
                    stack.append(int(s) * (-1 if v < 0 else 1))
            else:
                raise Unmodelled("reverse of a function")
        elif k == "n":
            stack.append(self.copy(self.context[-1]))
        elif k == "?":
            stack.append(self.copy(self.get_input(explicit=True)))
        elif k == "ɾ":
            stack.append(self.vec1(lambda x: self._range1(x), self.pop(stack)))
        elif k == "¬":
            v = self.pop(stack)
            if isinstance(v, Fn):
                raise Unmodelled("not of a function")
            stack.append(int(not truthy(v)))
        elif k == "ḃ":
            stack.append(self.vec1(lambda x: int(self._int(x) != 0), self.pop(stack)))
        elif k == "∷":
            stack.append(self.vec1(lambda x: self._int(x) % 2, self.pop(stack)))
        elif k == "Ḣ":
            v = self.pop(stack)
            if not is_list(v):
                raise Unmodelled("behead of a number")
            stack.append(v[1:])
        elif k == "Ṫ":
            v = self.pop(stack)
            if not is_list(v):
                raise Unmodelled("tail-remove of a number")
            stack.append(v[:-1])
        elif k == "U":
            it = self.iterable(self.pop(stack))
            out = []
            for x in it:
                if x not in out:
                    out.append(x)
            stack.append(out)
        elif k == "s":
            v = self.pop(stack)
            if is_list(v):
                if not all(is_int(x) for x in v):
                    raise Unmodelled("sorting nested lists")
                stack.append(sorted(v))
            elif is_int(v):
                sgn = -1 if v < 0 else 1
                stack.append(sgn * int("".join(sorted(str(abs(v))))))
            else:
                raise Unmodelled("sort of a function")
        elif k in ("G", "g"):
            v = self.pop(stack)
            flat = self.flatten(self.iterable(v))
            if not flat:
                stack.append([])
            else:
                if not all(is_int(x) for x in flat):
                    raise Unmodelled("max of functions")
                stack.append(max(flat) if k == "G" else min(flat))
        elif k == "ė":
            stack.append([[i, x] for i, x in enumerate(self.iterable(self.pop(stack)))])
        elif k == ",":
            self.emit(self.pop(stack))
        elif k == "₴":
            self.emit(self.pop(stack), end="")
        elif k == "…":
            v = self.pop(stack)
            self.emit(v)
            stack.append(v)
        elif k == "†":
            v = self.pop(stack)
            if isinstance(v, Fn):
                stack.append(self.call_dagger(v, stack))
            else:
                raise Unmodelled("† on a non-function")
        elif k == "M":
            b, a = self.popn(stack, 2)
            fn, it = (b, a) if isinstance(b, Fn) else (a, b)
            if not isinstance(fn, Fn) or isinstance(it, Fn):
                raise Unmodelled("M without exactly one function")
            it = self.rng(it) if is_int(it) else it
            stack.append([self.call(fn, [x]) for x in it])
        elif k == "F":
            b, a = self.popn(stack, 2)
            fn, it = (b, a) if isinstance(b, Fn) else (a, b)
            if not isinstance(fn, Fn) or isinstance(it, Fn):
                raise Unmodelled("F without exactly one function")
            it = self.rng(it) if is_int(it) else it
            stack.append([x for x in it if truthy(self.call(fn, [x]))])
        elif k == "ṡ":
            b, a = self.popn(stack, 2)
            fn, it = (b, a) if isinstance(b, Fn) else (a, b)
            if not isinstance(fn, Fn) or isinstance(it, Fn):
                raise Unmodelled("ṡ without exactly one function")
            it = self.iterable(it)
            keys = [self.call(fn, [x]) for x in it]
            if not all(is_int(x) for x in keys):
                raise Unmodelled("sorting by non-integer keys")
            stack.append([x for _, _, x in sorted(zip(keys, range(len(it)), it), key=lambda t: (t[0], t[1]))])
        else:
            raise Unmodelled("element " + k)

    def _range1(self, x):
        x = self._int(x)
        if x > 3000:
            raise StepLimit()
        self.tick(max(x, 0))
        return list(range(1, x + 1))

    def _int(self, x):
        if not is_int(x):
            raise Unmodelled("function used as a number")
        if abs(x) > 10 ** 12:
            raise StepLimit()
        return x

    def copy(self, v):
        if is_list(v):
            self.tick(len(v))
            return [self.copy(x) for x in v]
        return v

    def merge(self, a, b):
        if isinstance(a, Fn) or isinstance(b, Fn):
            raise Unmodelled("merge with a function")
        if is_list(a) or is_list(b):
            self.tick((len(a) if is_list(a) else 1) + (len(b) if is_list(b) else 1))
        if is_list(a) and is_list(b):
            return a + b
        if is_list(a):
            return a + [b]
        if is_list(b):
            return [a] + b
        if a < 0 or b < 0 or (a == 0 and b != 0):
            raise Unmodelled("joining negative numbers / a leading zero")
        return int(str(a) + str(b))

    # -- structures --------------------------------------------------------------------
    def _no_closure(self):
        """Function values made while a named parameter is in scope could read it later, after the call has
        returned (a Python closure); that is not modelled."""
        if any(self.locals):
            raise Unmodelled("function value created while named parameters are in scope")

    def wrap_operand(self, node):
        """lambda_wrap: how a modifier sees its operand."""
        self._no_closure()
        k = node[0]
        if k == "el":
            if node[1] not in ELEMENT_ARITY:
                raise Unmodelled("operand element " + node[1])
            return Fn(ELEMENT_ARITY[node[1]], [node])
        if k in ("num", "get"):
            return Fn(0, [node])
        if k == "lam":
            return Fn(1 if node[1] is None else node[1], node[2])
        if k == "mod" and node[1] in "⁽‡≬":
            # these modifiers are parsed into a lambda structure, and a lambda operand is used as the function itself
            return Fn(1, list(node[2]))
        return Fn(1, [node])

    def run_seq(self, seq, stack, pure=False):
        for node in seq:
            self.run_node(node, stack, pure)

    def run_node(self, node, stack, pure):
        self.tick()
        k = node[0]
        if k == "num":
            stack.append(int(node[1]))
        elif k == "el":
            self.element(node[1], stack, pure)
        elif k == "get":
            if pure is True:
                raise Unmodelled("variable read inside a lazily evaluated body")
            if node[1] == "":
                stack.append(self.copy(self.ghost))
            else:
                for loc in reversed(self.locals):
                    if node[1] in loc:
                        stack.append(self.copy(loc[node[1]]))
                        break
                else:
                    if node[1] not in self.vars:
                        raise RefError("variable read before assignment")
                    stack.append(self.copy(self.vars[node[1]]))
        elif k == "set":
            if pure:
                raise Unmodelled("variable write inside a function-like body")
            v = self.pop(stack)
            if node[1] == "":
                self.ghost = v
            else:
                self.vars[node[1]] = v
        elif k == "if":
            branches = node[1]
            cond = self.pop(stack)
            i = 0
            while True:
                if truthy(cond):
                    self.run_seq(branches[i], stack, pure)
                    return
                # falsey: is there an else-if pair or a final else?
                rest = len(branches) - (i + 1)
                if rest == 0:
                    return
                if rest == 1:
                    self.run_seq(branches[i + 1], stack, pure)
                    return
                self.run_seq(branches[i + 1], stack, pure)
                cond = self.pop(stack)
                i += 2
        elif k == "for":
            v = self.pop(stack)
            if isinstance(v, Fn):
                raise Unmodelled("for over a function")
            items = self.rng(v) if is_int(v) else list(v)
            if node[1] is not None and pure:
                raise Unmodelled("named loop variable inside a function-like body")
            for it in items:
                self.tick(2)
                self.context.append(it)
                if node[1] is not None:
                    self.vars[node[1]] = it
                elif False:
                    pass
                try:
                    self.run_seq(node[2], stack, pure)
                finally:
                    self.context.pop()
        elif k == "while":
            while True:
                self.tick(2)
                if node[1] is None:
                    cond = 1
                else:
                    self.run_seq(node[1], stack, pure)
                    cond = self.pop(stack)
                if not truthy(cond):
                    break
                self.context.append(cond)
                try:
                    self.run_seq(node[2], stack, pure)
                finally:
                    self.context.pop()
        elif k == "lam":
            self._no_closure()
            stack.append(Fn(1 if node[1] is None else node[1], node[2]))
        elif k in ("map", "flt", "srt"):
            self._no_closure()
            stack.append(Fn(1, node[1]))
            self.element({"map": "M", "flt": "F", "srt": "ṡ"}[k], stack, pure)
        elif k == "list":
            out = []
            for item in node[1]:
                self.tick(2)
                sub = [self.copy(x) for x in stack]
                # an item is evaluated at once, but inside a function of its own
                self.run_seq(item, sub, True if pure is True else "fn")
                if sub:
                    out.append(sub.pop())
            stack.append(out)
        elif k == "def":
            if pure:
                raise Unmodelled("function definition inside a function-like body")
            self.funcs[node[1]] = (list(node[2]), node[3])
        elif k == "call":
            if pure is True:
                raise Unmodelled("named function call inside a lazily evaluated body")
            if node[1] not in self.funcs:
                raise RefError("call of an undefined function")
            params, body = self.funcs[node[1]]
            fstack = []
            local = {}
            # parameters are bound in declaration order: a count takes that many entries for the function's
            # stack, a name takes one entry into a variable of that call (transpile.py FunctionDef template)
            for p in params:
                if p.isdigit():
                    fstack += self.popn(stack, int(p))
                elif p.isascii() and p.isidentifier():
                    local[p] = self.pop(stack)
                else:
                    raise Unmodelled("variadic / unusual parameter")
            self.exec_depth += 1
            if self.exec_depth > 40:
                raise StepLimit()
            self.context.append(list(fstack))
            self.inputs.append([list(fstack)[::-1], 0])
            self.locals.append(local)
            try:
                self.run_seq(body, fstack, "fn")
            finally:
                self.locals.pop()
                self.context.pop()
                self.inputs.pop()
                self.exec_depth -= 1
            stack += fstack
        elif k == "mod":
            self.modifier(node[1], node[2], stack, pure)
        else:
            raise Unmodelled("node " + k)

    def modifier(self, m, operands, stack, pure):
        fns = [self.wrap_operand(o) for o in operands]
        A = fns[0]
        if m in "⁽‡≬":
            stack.append(Fn(1, list(operands)))
        elif m == "v":
            args = self.popn(stack, A.arity)[::-1]
            if A.arity == 1:
                it = self.rng(args[0]) if is_int(args[0]) else args[0]
                if isinstance(it, Fn):
                    raise Unmodelled("v over a function")
                stack.append([self.call(A, [x]) for x in it])
            elif A.arity == 2:
                a, b = args
                if isinstance(a, Fn) or isinstance(b, Fn):
                    raise Unmodelled("v over a function")
                if is_list(a):
                    stack.append([self.call(A, [x, b]) for x in a])
                elif is_list(b):
                    stack.append([self.call(A, [a, y]) for y in b])
                else:
                    stack.append([self.call(A, [x, b]) for x in digits(a)])
            else:
                raise Unmodelled("v with arity " + str(A.arity))
        elif m == "&":
            raise Unmodelled("register modifier")
        elif m == "~":
            if A.arity >= 2:
                args = self.popn(stack, A.arity)
                for x in args[::-1]:
                    stack.append(x)       # retained
                stack.append(self.call(A, args[::-1]))
            elif A.arity == 1:
                it = self.pop(stack)
                if isinstance(it, Fn):
                    raise Unmodelled("filter of a function")
                it = self.rng(it) if is_int(it) else it
                stack.append([x for x in it if truthy(self.call(A, [x]))])
            else:
                pass
        elif m in ("₌", "₍"):
            B = fns[1]
            snapshot = [self.copy(x) for x in stack]
            args_a = self.popn(snapshot, A.arity)
            args_b = self.popn(stack, B.arity)
            ra = self.call(A, args_a[::-1])
            rb = self.call(B, args_b[::-1])
            if m == "₌":
                stack += [ra, rb]
            else:
                stack.append([ra, rb])
        elif m in ("ƒ", "ɖ"):
            v = self.pop(stack)
            if isinstance(v, Fn):
                raise Unmodelled("reduce of a function")
            it = self.iterable(v)
            f2 = Fn(2, A.body)
            if m == "ƒ":
                if not it:
                    stack.append(0)
                else:
                    acc = it[0]
                    for x in it[1:]:
                        acc = self.call(f2, [acc, x])
                    stack.append(acc)
            else:
                if not it:
                    stack.append([])
                else:
                    out = []
                    acc = it[0]
                    for x in it[1:]:
                        out.append(acc)
                        acc = self.call(f2, [acc, x])
                    out.append(acc)
                    stack.append(out)
        elif m == "ß":
            c = self.pop(stack)
            if truthy(c):
                stack.append(self.call_dagger(A, stack))
        else:
            raise Unmodelled("modifier " + m)

    # -- whole programs ------------------------------------------------------------------
    def run_program(self, seq):
        stack = [100] if "H" in self.flags else []
        self.run_seq(seq, stack, pure=False)
        return stack

    def implicit_output(self, stack):
        """What main.execute_vyxal prints at the end, for the flag sets of C01."""
        originally_empty = not stack
        output = self.pop(stack)
        for fl in self.flags:
            if fl == "j":
                if isinstance(output, Fn):
                    raise Unmodelled("join of a function")
                it = self.iterable(output)
                for x in it:
                    if isinstance(x, Fn):
                        raise Unmodelled("join of functions")
                output = ("str", "\n".join(fmt(x) for x in it))
            elif fl == "s":
                if isinstance(output, tuple) or isinstance(output, Fn):
                    raise Unmodelled("sum of text")
                it = self.iterable(output)
                if not it:
                    output = 0
                else:
                    acc = it[0]
                    for x in it[1:]:
                        acc = self.arith("+", acc, x)
                    output = acc
            elif fl == "W":
                if originally_empty:
                    output = []
                else:
                    if isinstance(output, tuple):
                        raise Unmodelled("W after j")
                    stack.append(output)
                    output = ("str", fmt(stack))
        if (not (self.printed or "O" in self.flags)) or "o" in self.flags:
            if isinstance(output, tuple):
                self.printed = True
                self.out.append(output[1] + "\n")
            else:
                self.emit(output)
        return "".join(self.out)
