"""Reader for the subset of YAML used by documents/knowledge/elements.yaml
(PyYAML is not installed in this sandbox).

Top level: a sequence of mappings introduced by `- element:` or `- modifier:`.
Scalar keys: name, arity, description, vectorise, usage.  `overloads:` is a
nested mapping (4-space indent), `tests:` a nested sequence.  Scalars are plain,
"double quoted" (with backslash escapes) or 'single quoted' ('' = quote).
"""
from __future__ import annotations

import os
import re


def _scalar(s: str):
    s = s.strip()
    if not s:
        return ""
    if s[0] == '"':
        out, i = [], 1
        while i < len(s):
            c = s[i]
            if c == "\\" and i + 1 < len(s):
                n = s[i + 1]
                out.append({"n": "\n", "t": "\t", '"': '"', "\\": "\\", "/": "/", "0": "\0"}.get(n, "\\" + n))
                i += 2
                continue
            if c == '"':
                break
            out.append(c)
            i += 1
        return "".join(out)
    if s[0] == "'":
        out, i = [], 1
        while i < len(s):
            c = s[i]
            if c == "'":
                if i + 1 < len(s) and s[i + 1] == "'":
                    out.append("'")
                    i += 2
                    continue
                break
            out.append(c)
            i += 1
        return "".join(out)
    # plain scalar: strip trailing comment
    s = re.sub(r"\s+#.*$", "", s)
    return s


def _typed(s: str):
    raw = s.strip()
    v = _scalar(s)
    if raw and raw[0] in "\"'":
        return v
    if v in ("true", "false"):
        return v == "true"
    if re.fullmatch(r"-?\d+", v):
        return int(v)
    return v


def load(path: str | None = None, repo: str = "/repo"):
    path = path or os.path.join(repo, "documents", "knowledge", "elements.yaml")
    entries = []
    cur = None
    sub = None  # name of nested key being filled
    with open(path, encoding="utf-8") as f:
        for lineno, line in enumerate(f, 1):
            line = line.rstrip("\n")
            if not line.strip() or line.lstrip().startswith("#"):
                continue
            m = re.match(r"^- (element|modifier):\s*(.*)$", line)
            if m:
                cur = {"kind": m.group(1), "key": _scalar(m.group(2)), "line": lineno}
                entries.append(cur)
                sub = None
                continue
            if cur is None:
                continue
            m = re.match(r"^  ([A-Za-z_]+):\s*(.*)$", line)
            if m:
                k, v = m.group(1), m.group(2)
                if k == "overloads":
                    cur["overloads"] = {}
                    sub = "overloads"
                elif k == "tests":
                    cur["tests"] = []
                    sub = "tests"
                else:
                    cur[k] = _typed(v)
                    sub = None
                continue
            if sub == "overloads":
                m = re.match(r"^    ([^:]+):\s*(.*)$", line)
                if m:
                    cur["overloads"][m.group(1).strip()] = _scalar(m.group(2))
                continue
            if sub == "tests":
                m = re.match(r"^    - (.*)$", line)
                if m:
                    cur["tests"].append(_scalar(m.group(1)))
                continue
    for e in entries:
        e["key"] = e["key"].replace("␤", "\n")
    return entries
